(* C12: sequence inputs give exactly the specified residue graph (model/SeqParse.v). *)
From Coq Require Import String Ascii List Bool Arith Lia.
From PV Require Import SeqParse.
Import ListNotations.
Close Scope string_scope.
Open Scope list_scope.

(* ---- linear ---- *)
Lemma chain_edges_spec n : forall k a b l, In (a, b, l) (chain_edges k n) <-> l = false /\ b = S a /\ k <= a < k + n.
Proof.
  induction n as [|n IH]; intros k a b l; cbn [chain_edges In].
  - split; [intros []|intros (_ & _ & H); lia].
  - rewrite IH. split.
    + intros [E | (H1 & H2 & H3)]; [injection E as <- <- <-; repeat split; lia|repeat split; try assumption; lia].
    + intros (-> & -> & H). destruct (Nat.eq_dec a k) as [-> | Hne]; [left; reflexivity|right; repeat split; lia].
Qed.

(* residues numbered from 1 in input order, connected linearly and not otherwise *)
Theorem linear_spec names :
  g_names (linear names) = names /\
  forall a b l, In (a, b, l) (g_edges (linear names)) <-> l = false /\ b = S a /\ b < length names.
Proof.
  split; [reflexivity|]. intros a b l. unfold linear; cbn [g_edges]. rewrite chain_edges_spec. split.
  - intros (-> & -> & H). repeat split; lia.
  - intros (-> & -> & H). repeat split; lia.
Qed.

Theorem from_seq_spec ms :
  g_names (from_seq ms) = flat_map (fun m => repeat (fst m) (snd m)) ms /\
  length (g_names (from_seq ms)) = fold_right (fun m acc => snd m + acc) 0 ms.
Proof.
  split; [reflexivity|]. unfold from_seq, linear, expand_monomers; cbn [g_names].
  induction ms as [|m r IH]; cbn [flat_map fold_right length]; [reflexivity|]. rewrite app_length, repeat_length, IH. reflexivity.
Qed.

(* ---- .txt ---- *)
Definition clean (t : list ascii) : Prop := t <> [] /\ Forall (fun c => is_ws c = false) t.
Fixpoint joinL (toks : list (list ascii)) : list ascii :=
  match toks with
  | [] => []
  | [t] => t
  | t :: r => t ++ " "%char :: joinL r
  end.

Lemma space_ws : is_ws " "%char = true. Proof. reflexivity. Qed.
Lemma not_ws_not_space c : is_ws c = false -> Ascii.eqb c " " = false.
Proof. intros H. destruct (Ascii.eqb c " ") eqn:E; [|reflexivity]. apply Ascii.eqb_eq in E. subst. discriminate. Qed.

Lemma split_nospace t : forall rest cur, Forall (fun c => is_ws c = false) t ->
  split_spL (t ++ rest) cur = split_spL rest (rev t ++ cur).
Proof.
  induction t as [|c t IH]; intros rest cur H; [reflexivity|]. inversion H as [|? ? Hc Ht]; subst.
  cbn [app split_spL]. rewrite (not_ws_not_space c Hc), IH by exact Ht. cbn [rev]. rewrite <- app_assoc. reflexivity.
Qed.

Lemma split_join toks : toks <> [] -> Forall clean toks -> split_spL (joinL toks) [] = toks.
Proof.
  induction toks as [|t r IH]; intros Hne Hall; [contradiction|]. inversion Hall as [|? ? [Ht1 Ht2] Hr]; subst.
  destruct r as [|t' r'].
  - cbn [joinL]. rewrite <- (app_nil_r t) at 1. rewrite split_nospace by exact Ht2. cbn [split_spL]. rewrite app_nil_r, rev_involutive. reflexivity.
  - change (joinL (t :: t' :: r')) with (t ++ " "%char :: joinL (t' :: r')). rewrite split_nospace by exact Ht2.
    cbn [split_spL]. rewrite app_nil_r, rev_involutive. cbn [Ascii.eqb Bool.eqb]. rewrite IH; [reflexivity|discriminate|exact Hr].
Qed.

Lemma lstrip_hd l c r : l = c :: r -> is_ws c = false -> lstripL l = l.
Proof. intros -> H. cbn [lstripL]. rewrite H. reflexivity. Qed.

Lemma strip_id l : l <> [] -> is_ws (hd " "%char l) = false -> is_ws (hd " "%char (rev l)) = false -> stripL l = l.
Proof.
  intros Hne Hh Hl. unfold stripL. destruct l as [|c r]; [contradiction|]. cbn [hd] in Hh.
  rewrite (lstrip_hd (c :: r) c r eq_refl Hh). destruct (rev (c :: r)) as [|d q] eqn:E.
  - apply (f_equal (@length ascii)) in E. rewrite rev_length in E. discriminate.
  - cbn [hd] in Hl. rewrite (lstrip_hd (d :: q) d q eq_refl Hl), <- E. apply rev_involutive.
Qed.

Lemma clean_strip t : clean t -> stripL t = t.
Proof.
  intros [Hne Hall]. apply strip_id; [exact Hne| |].
  - destruct t as [|c r]; [contradiction|]. inversion Hall; assumption.
  - assert (Hr : Forall (fun c => is_ws c = false) (rev t)) by (apply Forall_rev; exact Hall).
    destruct (rev t) as [|d q] eqn:E; [apply (f_equal (@length ascii)) in E; rewrite rev_length in E; destruct t; [contradiction|discriminate]|].
    inversion Hr; assumption.
Qed.

Lemma join_ends toks : toks <> [] -> Forall clean toks ->
  joinL toks <> [] /\ is_ws (hd " "%char (joinL toks)) = false /\ is_ws (hd " "%char (rev (joinL toks))) = false.
Proof.
  induction toks as [|t r IH]; intros Hne Hall; [contradiction|]. inversion Hall as [|? ? [Ht1 Ht2] Hr]; subst.
  destruct r as [|t' r'].
  - cbn [joinL]. split; [exact Ht1|]. split.
    + destruct t as [|c q]; [contradiction|]. inversion Ht2; assumption.
    + assert (Hrv : Forall (fun c => is_ws c = false) (rev t)) by (apply Forall_rev; exact Ht2).
      destruct (rev t) as [|d q] eqn:E; [apply (f_equal (@length ascii)) in E; rewrite rev_length in E; destruct t; [contradiction|discriminate]|].
      inversion Hrv; assumption.
  - change (joinL (t :: t' :: r')) with (t ++ " "%char :: joinL (t' :: r')).
    destruct (IH ltac:(discriminate) Hr) as (H1 & H2 & H3). split; [destruct t; discriminate|]. split.
    + destruct t as [|c q]; [contradiction|]. inversion Ht2; assumption.
    + rewrite rev_app_distr. cbn [rev]. rewrite <- app_assoc. destruct (rev (joinL (t' :: r'))) as [|d q] eqn:E.
      * apply (f_equal (@length ascii)) in E. rewrite rev_length in E. destruct (joinL (t' :: r')); [contradiction|discriminate].
      * cbn [app hd]. exact H3.
Qed.

(* every way of breaking the token stream into non-empty lines of single-space separated
   clean tokens gives the same token list, hence the same residue graph *)
Theorem txt_linebreak_invariant (ls : list (list (list ascii))) :
  Forall (fun toks => toks <> [] /\ Forall clean toks) ls ->
  txt_tokensL (map joinL ls) = concat ls.
Proof.
  induction ls as [|toks r IH]; intros H; [reflexivity|]. inversion H as [|? ? [Hne Hall] Hr]; subst.
  cbn [map]. unfold txt_tokensL in *. cbn [flat_map concat]. rewrite IH by exact Hr. f_equal.
  destruct (join_ends toks Hne Hall) as (H1 & H2 & H3). rewrite (strip_id _ H1 H2 H3), (split_join toks Hne Hall).
  clear - Hall. induction toks as [|t q IHq]; [reflexivity|]. inversion Hall; subst. cbn [map]. rewrite clean_strip by assumption. f_equal. apply IHq. assumption.
Qed.

(* ---- one-letter translation ---- *)
Lemma translate_nth a letters : forall names, translate a letters = Some names ->
  length names = length letters /\ forall k c, nth_error letters k = Some c -> option_map Some (nth_error names k) = Some (one_letter a c).
Proof.
  induction letters as [|c r IH]; intros names H; cbn [translate] in H.
  - injection H as <-. split; [reflexivity|]. intros [|k] c; discriminate.
  - destruct (one_letter a c) as [x|] eqn:E1; [|discriminate]. destruct (translate a r) as [l|] eqn:E2; [|discriminate].
    injection H as <-. destruct (IH l eq_refl) as [Hl Hn]. split; [cbn; lia|]. intros [|k] c0 Hk; cbn [nth_error] in *.
    + injection Hk as <-. rewrite E1. reflexivity.
    + apply Hn. exact Hk.
Qed.

Lemma translate_unknown a letters c : In c letters -> one_letter a c = None -> translate a letters = None.
Proof.
  induction letters as [|d r IH]; intros Hin Hn; [destruct Hin|]. cbn [translate]. destruct Hin as [-> | Hin].
  - rewrite Hn. reflexivity.
  - rewrite (IH Hin Hn). destruct (one_letter a d); reflexivity.
Qed.

(* 5'/3' naming: first and last residue only, nucleic acids only *)
Theorem termini_spec a x mid y :
  add_termini a (x :: mid ++ [y]) =
  if nucleic a then (x ++ "5")%string :: mid ++ [(y ++ "3")%string] else x :: mid ++ [y].
Proof.
  unfold add_termini. destruct (nucleic a); [|reflexivity]. unfold set_last. cbn [set_first].
  assert (E : rev ((x ++ "5")%string :: mid ++ [y]) = y :: rev ((x ++ "5")%string :: mid)).
  { change ((x ++ "5")%string :: mid ++ [y]) with (((x ++ "5")%string :: mid) ++ [y]). rewrite rev_app_distr. reflexivity. }
  rewrite E. cbn [set_first]. change (rev ((y ++ "3")%string :: rev ((x ++ "5")%string :: mid))) with (rev (rev ((x ++ "5")%string :: mid)) ++ [(y ++ "3")%string]).
  rewrite rev_involutive. reflexivity.
Qed.

(* circular .ig: ring closed by one labelled edge, names are the plain translations *)
Theorem ig_circular_spec a lines names :
  translate a (letters_of lines) = Some names -> 3 <= length names ->
  exists g, parse_ig a true lines = Some g /\ g_names g = names /\
    forall x y l, In (x, y, l) (g_edges g) <-> (l = false /\ y = S x /\ y < length names) \/ (x = 0 /\ y = length names - 1 /\ l = true).
Proof.
  intros H Hn. unfold parse_ig. rewrite H. eexists. split; [reflexivity|]. split; [reflexivity|]. intros x y l. cbn [g_edges].
  destruct (linear_spec names) as [_ Hl].
  assert (Hnew : existsb (fun e => same_ends e 0 (length names - 1)) (g_edges (linear names)) = false).
  { destruct (existsb _ _) eqn:E; [|reflexivity]. apply existsb_exists in E. destruct E as ([[p q] lb] & Hin & Hs).
    apply Hl in Hin. destruct Hin as (_ & -> & Hq). unfold same_ends in Hs. cbn [fst snd] in Hs.
    apply orb_true_iff in Hs. destruct Hs as [Hs | Hs]; apply andb_true_iff in Hs; destruct Hs as [H1 H2];
      apply Nat.eqb_eq in H1; apply Nat.eqb_eq in H2; lia. }
  unfold add_edge. rewrite Hnew, in_app_iff, Hl. cbn [In]. split.
  - intros [H1 | [E | []]]; [left; exact H1|right; injection E as <- <- <-; auto].
  - intros [H1 | (-> & -> & ->)]; [left; exact H1|right; left; reflexivity].
Qed.

(* ---- macro trees ---- *)
Theorem tree_edges_spec r n p k l :
  In (p, k, l) (tree_edges r n) <-> l = false /\ 1 <= k < n /\ p = (k - 1) / r.
Proof.
  unfold tree_edges. rewrite in_map_iff. split.
  - intros (j & E & Hj). apply in_seq in Hj. injection E as <- <- <-. repeat split; lia.
  - intros (-> & Hk & ->). exists k. split; [reflexivity|]. apply in_seq. lia.
Qed.

Theorem tree_parent_smaller r k : 1 <= r -> 1 <= k -> (k - 1) / r < k.
Proof. intros Hr Hk. apply Nat.le_lt_trans with (k - 1); [apply Nat.div_le_upper_bound; nia|lia]. Qed.

Theorem macro_spec m :
  g_names (macro_graph m) = repeat (m_res m) (tree_size (m_bfact m) (m_levels m - 1)) /\
  tree_size (m_bfact m) 0 = 1 /\ (forall h, tree_size (m_bfact m) (S h) = 1 + m_bfact m * tree_size (m_bfact m) h).
Proof. repeat split. Qed.

(* ---- sequence of blocks ---- *)
Lemma union_spec blocks : forall off,
  fst (fst (union blocks off)) = concat (map g_names blocks) /\
  length (snd (union blocks off)) = length blocks /\
  forall i, i < length blocks -> nth_error (snd (union blocks off)) i = Some (off + length (concat (map g_names (firstn i blocks)))).
Proof.
  induction blocks as [|b r IH]; intros off; cbn [union].
  - repeat split. intros i Hi; cbn in Hi; lia.
  - destruct (union r (off + length (g_names b))) as [[ns es] offs] eqn:E. specialize (IH (off + length (g_names b))). rewrite E in IH.
    cbn [fst snd] in *. destruct IH as (H1 & H2 & H3). split; [cbn [map concat]; rewrite H1; reflexivity|]. split; [cbn; rewrite H2; reflexivity|].
    intros [|i] Hi; cbn [nth_error firstn map concat length]; [f_equal; lia|]. rewrite H3 by (cbn in Hi; lia). rewrite app_length. f_equal. lia.
Qed.

(* a connect record i:j:a-b adds exactly the edge between the a-th residue of block i and the
   b-th residue of block j *)
Theorem connect_spec offs sizes c e :
  connect_edge offs sizes c = Some e ->
  exists oi oj si sj, nth_error offs (c_i c) = Some oi /\ nth_error offs (c_j c) = Some oj /\
    nth_error sizes (c_i c) = Some si /\ nth_error sizes (c_j c) = Some sj /\ c_a c < si /\ c_b c < sj /\ e = (oi + c_a c, oj + c_b c, false).
Proof.
  unfold connect_edge. destruct (nth_error offs (c_i c)) as [oi|]; [|discriminate]. destruct (nth_error offs (c_j c)) as [oj|]; [|discriminate].
  destruct (nth_error sizes (c_i c)) as [si|]; [|discriminate]. destruct (nth_error sizes (c_j c)) as [sj|]; [|discriminate].
  destruct (Nat.ltb_spec (c_a c) si); [|discriminate]. destruct (Nat.ltb_spec (c_b c) sj); [|discriminate]. cbn [andb]. intros Heq. injection Heq as <-.
  exists oi, oj, si, sj. repeat split; assumption.
Qed.

Example ex_seq :
  parse_ig DNA true ["ACG"%string; "T"%string] = Some {| g_names := ["DA"; "DC"; "DG"; "DT"]%string; g_edges := [(0, 1, false); (1, 2, false); (2, 3, false); (0, 3, true)] |}
  /\ parse_plain RNA ["AT"%string; "G"%string] = Some (linear ["A5"; "U"; "G3"]%string)
  /\ g_names (parse_txt ["PEO PEO"%string; " PS "%string]) = ["PEO"; "PEO"; "PS"]%string.
Proof. vm_compute. repeat split. Qed.

(* ---- tie T: the model's one-letter function is the table of the source, for all 256 characters ---- *)
From PV Require Import Gen_seqtables.
Fixpoint table_get (t : list (string * string)) (k : string) : option string :=
  match t with [] => None | (a, v) :: r => if String.eqb a k then Some v else table_get r k end.
Definition opt_eqb (a b : option string) : bool :=
  match a, b with Some x, Some y => String.eqb x y | None, None => true | _, _ => false end.
Definition all_ascii : list ascii := map ascii_of_nat (seq 0 256).
Definition tables_agree : bool :=
  forallb (fun c => opt_eqb (one_letter DNA c) (table_get ONE_LETTER_DNA (String c EmptyString)) &&
                    opt_eqb (one_letter RNA c) (table_get ONE_LETTER_RNA (String c EmptyString)) &&
                    opt_eqb (one_letter AA c) (table_get ONE_LETTER_AA (String c EmptyString))) all_ascii.
Lemma gen_tables_agree : tables_agree = true.
Proof. vm_compute. reflexivity. Qed.

Lemma all_ascii_complete c : In c all_ascii.
Proof.
  unfold all_ascii. apply in_map_iff. exists (nat_of_ascii c). split; [apply ascii_nat_embedding|].
  apply in_seq. pose proof (nat_ascii_bounded c). lia.
Qed.

Lemma opt_eqb_eq a b : opt_eqb a b = true -> a = b.
Proof. destruct a, b; cbn; try discriminate; try reflexivity. intros H. apply String.eqb_eq in H. subst. reflexivity. Qed.

Theorem one_letter_is_source_table c :
  one_letter DNA c = table_get ONE_LETTER_DNA (String c EmptyString) /\
  one_letter RNA c = table_get ONE_LETTER_RNA (String c EmptyString) /\
  one_letter AA c = table_get ONE_LETTER_AA (String c EmptyString).
Proof.
  pose proof gen_tables_agree as H. unfold tables_agree in H. rewrite forallb_forall in H. specialize (H c (all_ascii_complete c)).
  apply andb_true_iff in H. destruct H as [H H3]. apply andb_true_iff in H. destruct H as [H1 H2].
  repeat split; apply opt_eqb_eq; assumption.
Qed.

(* the suffix is stripped on closing a ring only for nucleic acids (guards of the assignment) *)
Lemma gen_circular_guard : circular_strip_guard = ["ter_char == '2'"; "DNA or RNA"]%string.
Proof. reflexivity. Qed.

(* ---- comments that name the protein keyword together with a nucleic acid ---- *)
Lemma one_letter_mix_single a c : one_letter_mix (kinds_of a) c = one_letter a c.
Proof. destruct a; unfold one_letter_mix; cbn [kinds_of k_dna k_rna k_aa]; destruct (one_letter _ c); reflexivity. Qed.
Lemma translate_mix_single a letters : translate_mix (kinds_of a) letters = translate a letters.
Proof. induction letters as [|c r IH]; cbn [translate_mix translate]; [reflexivity|]. rewrite one_letter_mix_single, IH. reflexivity. Qed.
Lemma parse_plain_mix_single a lines : parse_plain_mix (kinds_of a) lines = parse_plain a lines.
Proof. unfold parse_plain_mix, parse_plain. rewrite translate_mix_single. destruct a; reflexivity. Qed.
(* the tables are consulted in the order DNA, RNA, protein, letter by letter, whatever was read before *)
Lemma one_letter_mix_precedence k c x :
  one_letter_mix k c = Some x <->
  (k_dna k = true /\ one_letter DNA c = Some x) \/
  ((k_dna k = false \/ one_letter DNA c = None) /\ k_rna k = true /\ one_letter RNA c = Some x) \/
  ((k_dna k = false \/ one_letter DNA c = None) /\ (k_rna k = false \/ one_letter RNA c = None) /\ k_aa k = true /\ one_letter AA c = Some x).
Proof.
  unfold one_letter_mix. destruct (k_dna k), (k_rna k), (k_aa k);
    destruct (one_letter DNA c) as [d|]; destruct (one_letter RNA c) as [r|]; destruct (one_letter AA c) as [p|];
    split; intros H;
    repeat match goal with
           | H : _ \/ _ |- _ => destruct H
           | H : _ /\ _ |- _ => destruct H
           end; try discriminate; try congruence; auto 10.
Qed.
Example ex_mixed_header :
  parse_plain_mix {| k_dna := true; k_rna := false; k_aa := true |} ["MAG"%string; "T"%string] = Some (linear ["MET5"; "DA"; "DG"; "DT3"]%string).
Proof. vm_compute. reflexivity. Qed.
