(* C11: reading back what the writer model emits gives the same molecule (model/Itp.v). *)
From Coq Require Import ZArith String List Bool Arith Lia.
From PV Require Import Itp.
Import ListNotations.
Open Scope string_scope.

Definition plain (t : string) : Prop := t <> "[" /\ t <> "#ifdef" /\ t <> "#ifndef" /\ t <> "#endif".

Lemma eqb_false a b : a <> b -> String.eqb a b = false.
Proof. intros H. apply String.eqb_neq. exact H. Qed.

Lemma classify_plain l : l <> [] -> plain (hd "" l) -> classify l = KContent.
Proof.
  intros Hne (H1 & H2 & H3 & H4). destruct l as [|a [|b [|c [|d r]]]]; [contradiction| | | |reflexivity]; cbn [hd] in *; cbn [classify].
  - rewrite (eqb_false _ _ H4). reflexivity.
  - rewrite (eqb_false _ _ H2), (eqb_false _ _ H3). reflexivity.
  - rewrite (eqb_false _ _ H1). reflexivity.
Qed.

Lemma arity_out sec : arity (out_section sec) = arity sec.
Proof.
  unfold out_section. destruct (String.eqb sec "impropers") eqn:E; [|reflexivity].
  apply String.eqb_eq in E. subst. reflexivity.
Qed.

Lemma split_out sec l : split_line (out_section sec) l = split_line sec l.
Proof.
  unfold out_section. destruct (String.eqb sec "impropers") eqn:E; [|reflexivity].
  apply String.eqb_eq in E. subst. reflexivity.
Qed.

Lemma split_known sec l x : split_line sec l = Some x ->
  String.eqb sec "moleculetype" = false /\ String.eqb sec "atoms" = false.
Proof.
  intros H. split.
  - destruct (String.eqb sec "moleculetype") eqn:E; [|reflexivity]. apply String.eqb_eq in E. subst. discriminate.
  - destruct (String.eqb sec "atoms") eqn:E; [|reflexivity]. apply String.eqb_eq in E. subst. discriminate.
Qed.

(* an (atoms, parameters) item of a section is well formed when its line splits back into it:
   the section's number of atoms for sections with parameters, no parameters for exclusions *)
Definition WFit (sec : string) (it : list string * list string) : Prop :=
  split_line sec (body it) = Some it /\ fst it <> [] /\ plain (hd "" (fst it)).
Definition WFs (c : sect) : Prop := Forall (fun g => Forall (WFit (c_name c)) (g_items g)) (c_groups c).

Lemma WFit_fixed sec k ats ps : arity sec = Some k -> sec <> "exclusions" -> length ats = k -> (1 <= k)%nat -> plain (hd "" ats) ->
  WFit sec (ats, ps).
Proof.
  intros Ha Hx Hl Hk Hp. unfold WFit, body, split_line. cbn [fst snd]. rewrite (eqb_false _ _ Hx), Ha.
  assert (Hlen : (length (ats ++ ps)%list <? k)%nat = false) by (apply Nat.ltb_ge; rewrite app_length; lia).
  rewrite Hlen. rewrite <- Hl at 1 2. rewrite firstn_app, Nat.sub_diag, firstn_all, skipn_app, Nat.sub_diag, skipn_all. cbn [firstn skipn].
  rewrite !app_nil_r. split; [reflexivity|]. split; [|exact Hp]. destruct ats; [cbn in Hl; lia|discriminate].
Qed.
Lemma WFit_excl ats : ats <> [] -> plain (hd "" ats) -> WFit "exclusions" (ats, []).
Proof. intros Hn Hp. unfold WFit, body, split_line. cbn [fst snd String.eqb Ascii.eqb Bool.eqb]. rewrite app_nil_r. split; [reflexivity|]. split; assumption. Qed.

Definition add_inters (s : rst) (l : list inter) : rst :=
  {| s_sec := s_sec s; s_guard := s_guard s; s_name := s_name s; s_atoms := s_atoms s; s_inters := (s_inters s ++ l)%list |}.

Lemma add_inters_nil s : add_inters s [] = s.
Proof. destruct s; unfold add_inters; cbn. rewrite app_nil_r. reflexivity. Qed.
Lemma add_inters_app s l1 l2 : add_inters (add_inters s l1) l2 = add_inters s (l1 ++ l2).
Proof. unfold add_inters; cbn. rewrite app_assoc. reflexivity. Qed.

Lemma read_body s it :
  WFit (s_sec s) it ->
  read_line s (body it) =
  Some (add_inters s [{| i_sec := s_sec s; i_atoms := fst it; i_params := snd it; i_guard := s_guard s |}]).
Proof.
  intros (Hs & Hne0 & Hp). unfold read_line.
  assert (Hne : body it <> []) by (unfold body; destruct (fst it); [contradiction|discriminate]).
  assert (Hhd : hd "" (body it) = hd "" (fst it)) by (unfold body; destruct (fst it); [contradiction|reflexivity]).
  rewrite (classify_plain _ Hne) by (rewrite Hhd; exact Hp).
  unfold read_content. destruct (split_known _ _ _ Hs) as [E1 E2]. rewrite E1, E2, Hs. destruct it; reflexivity.
Qed.

Lemma read_items items : forall s rest, Forall (WFit (s_sec s)) items ->
  read_lines s (map body items ++ rest)%list =
  read_lines (add_inters s (map (fun it => {| i_sec := s_sec s; i_atoms := fst it; i_params := snd it; i_guard := s_guard s |}) items)) rest.
Proof.
  induction items as [|it r IH]; intros s rest Hall; cbn [map app read_lines].
  - rewrite add_inters_nil. reflexivity.
  - inversion Hall as [|? ? Hi Hr]; subst. rewrite (read_body s it Hi).
    rewrite IH; [|exact Hr]. rewrite add_inters_app. reflexivity.
Qed.

Lemma read_group g s rest : s_guard s = None -> Forall (WFit (s_sec s)) (g_items g) ->
  read_lines s (write_group g ++ rest)%list = read_lines (add_inters s (inters_of_group (s_sec s) g)) rest.
Proof.
  intros Hg Hall. unfold write_group, inters_of_group. destruct (g_guard g) as [[m [|]]|] eqn:Eg; cbn [guard_open guard_close app read_lines].
  - assert (E : read_line s ["#ifdef"; m] = Some (set_guard s (Some (m, true))))
      by (unfold read_line; cbn [classify String.eqb Ascii.eqb Bool.eqb]; rewrite Hg; reflexivity).
    rewrite E, <- app_assoc, read_items; [|exact Hall]. cbn [app read_lines].
    unfold read_line at 1. cbn [classify String.eqb Ascii.eqb Bool.eqb add_inters set_guard s_guard s_sec]. 
    destruct s; unfold set_guard, add_inters; cbn in *; subst; reflexivity.
  - assert (E : read_line s ["#ifndef"; m] = Some (set_guard s (Some (m, false))))
      by (unfold read_line; cbn [classify String.eqb Ascii.eqb Bool.eqb]; rewrite Hg; reflexivity).
    rewrite E, <- app_assoc, read_items; [|exact Hall]. cbn [app read_lines].
    unfold read_line at 1. cbn [classify String.eqb Ascii.eqb Bool.eqb add_inters set_guard s_guard s_sec].
    destruct s; unfold set_guard, add_inters; cbn in *; subst; reflexivity.
  - rewrite app_nil_r, read_items; [|exact Hall]. rewrite Hg. reflexivity.
Qed.

Lemma read_groups gs : forall s rest, s_guard s = None ->
  Forall (fun g => Forall (WFit (s_sec s)) (g_items g)) gs ->
  read_lines s (flat_map write_group gs ++ rest)%list = read_lines (add_inters s (flat_map (inters_of_group (s_sec s)) gs)) rest.
Proof.
  induction gs as [|g r IH]; intros s rest Hg Hall; cbn [flat_map app].
  - rewrite add_inters_nil. reflexivity.
  - inversion Hall as [|? ? Hi Hr]; subst. rewrite <- app_assoc, (read_group g s _ Hg Hi).
    rewrite IH; [|exact Hg|exact Hr]. rewrite add_inters_app. reflexivity.
Qed.

Lemma read_sect c s rest : s_guard s = None -> WFs c ->
  read_lines s (write_sect c ++ rest)%list =
  read_lines (add_inters (set_sec s (out_section (c_name c))) (map canon_inter (inters_of_sect c))) rest.
Proof.
  intros Hg Hall. unfold write_sect. cbn [app read_lines].
  assert (Hhead : read_line s ["["; out_section (c_name c); "]"] = Some (set_sec s (out_section (c_name c)))) by reflexivity.
  rewrite Hhead, read_groups; [|exact Hg|cbn [set_sec s_sec]; unfold WFs in Hall; eapply Forall_impl; [|exact Hall]; intros g Hgi;
    eapply Forall_impl; [|exact Hgi]; intros it (H1 & H2 & H3); split; [rewrite split_out; exact H1|split; assumption]].
  cbn [set_sec s_sec]. f_equal. f_equal. unfold inters_of_sect. rewrite !flat_map_concat_map, concat_map, map_map.
  f_equal. apply map_ext. intros g. unfold inters_of_group. rewrite map_map. reflexivity.
Qed.

Lemma read_sects cs : forall s rest, s_guard s = None -> Forall WFs cs ->
  exists sec, read_lines s (flat_map write_sect cs ++ rest)%list =
  read_lines (add_inters (set_sec s sec) (map canon_inter (flat_map inters_of_sect cs))) rest.
Proof.
  induction cs as [|c r IH]; intros s rest Hg Hall; cbn [flat_map map app].
  - exists (s_sec s). rewrite add_inters_nil. destruct s; reflexivity.
  - inversion Hall as [|? ? Hi Hr]; subst. rewrite <- app_assoc, (read_sect c s _ Hg Hi).
    destruct (IH (add_inters (set_sec s (out_section (c_name c))) (map canon_inter (inters_of_sect c))) rest Hg Hr) as (sec & E).
    exists sec. rewrite E. rewrite map_app. unfold add_inters, set_sec; cbn. rewrite app_assoc. reflexivity.
Qed.

Definition WFa (a : arow) : Prop := r_charge a = None -> r_mass a = None.

Lemma read_atom s idxs a : s_sec s = "atoms" -> WFa a ->
  read_line s (write_atom 0 a idxs) =
  Some {| s_sec := s_sec s; s_guard := s_guard s; s_name := s_name s; s_atoms := (s_atoms s ++ [a])%list; s_inters := s_inters s |}.
Proof.
  intros Hs Hw. unfold write_atom, read_line.
  destruct a as [t ri rn n cg c m]. cbn [r_type r_resid r_resname r_name r_cg r_charge r_mass] in *.
  destruct c as [c|]; [destruct m as [m|]|]; cbn [app classify]; unfold read_content; rewrite Hs; cbn [String.eqb Ascii.eqb Bool.eqb].
  - reflexivity.
  - reflexivity.
  - unfold WFa in Hw. cbn in Hw. rewrite (Hw eq_refl). reflexivity.
Qed.

Lemma read_atoms : forall (idxs : list string) atoms s rest, s_sec s = "atoms" -> Forall WFa atoms -> length idxs = length atoms ->
  read_lines s (map (fun p => write_atom 0 (snd p) (fst p)) (combine idxs atoms) ++ rest)%list =
  read_lines {| s_sec := s_sec s; s_guard := s_guard s; s_name := s_name s; s_atoms := (s_atoms s ++ atoms)%list; s_inters := s_inters s |} rest.
Proof.
  induction idxs as [|x xs IH]; intros [|a atoms] s rest Hs Hall Hl; try discriminate; cbn [combine map app read_lines].
  - rewrite app_nil_r. destruct s; reflexivity.
  - inversion Hall as [|? ? Ha Hr]; subst. cbn [fst snd]. rewrite (read_atom s x a Hs Ha).
    rewrite IH; [|exact Hs|exact Hr|cbn in Hl; lia]. cbn [s_sec s_guard s_name s_atoms s_inters]. rewrite <- app_assoc. reflexivity.
Qed.

(* reading back the written file gives the same atoms (type, residue, name, charge group,
   charge, mass) and the same interactions with parameters and guards; impropers come back
   in the dihedrals section *)
Theorem read_write_roundtrip idxs name nrexcl atoms sects :
  length idxs = length atoms -> plain name ->
  Forall WFa atoms -> Forall WFs sects ->
  read (write idxs name nrexcl atoms sects) = Some (canon (mol_of name nrexcl atoms sects)).
Proof.
  intros Hl Hn Ha Hi. unfold read, write. cbn [app read_lines].
  assert (E1 : forall s0, read_line s0 ["["; "moleculetype"; "]"] = Some (set_sec s0 "moleculetype")) by reflexivity.
  rewrite E1.
  assert (E2 : read_line (set_sec {| s_sec := ""; s_guard := None; s_name := None; s_atoms := []; s_inters := [] |} "moleculetype") [name; nrexcl]
               = Some {| s_sec := "moleculetype"; s_guard := None; s_name := Some (name, nrexcl); s_atoms := []; s_inters := [] |}).
  { unfold read_line. rewrite (classify_plain [name; nrexcl]); [reflexivity|discriminate|exact Hn]. }
  rewrite E2.
  assert (E3 : forall s0, read_line s0 ["["; "atoms"; "]"] = Some (set_sec s0 "atoms")) by reflexivity.
  rewrite E3. rewrite read_atoms; [|reflexivity|exact Ha|exact Hl].
  cbn [set_sec s_sec s_guard s_name s_atoms s_inters app].
  destruct (read_sects sects {| s_sec := "atoms"; s_guard := None; s_name := Some (name, nrexcl); s_atoms := atoms; s_inters := [] |} [] eq_refl Hi) as (sec & E).
  rewrite app_nil_r in E. rewrite E. cbn [read_lines add_inters set_sec s_guard s_name s_atoms s_inters app]. reflexivity.
Qed.

(* the order in which sections, groups and lines are laid out is irrelevant for what is read
   back: the interactions read are exactly those written, each with its own section and guard *)
Corollary roundtrip_members idxs name nrexcl atoms sects m :
  length idxs = length atoms -> plain name -> Forall WFa atoms -> Forall WFs sects ->
  read (write idxs name nrexcl atoms sects) = Some m ->
  m_atoms m = atoms /\ forall i, In i (m_inters m) <-> exists c g it, In c sects /\ In g (c_groups c) /\ In it (g_items g) /\
      i = {| i_sec := out_section (c_name c); i_atoms := fst it; i_params := snd it; i_guard := g_guard g |}.
Proof.
  intros Hl Hn Ha Hi E. rewrite (read_write_roundtrip _ _ _ _ _ Hl Hn Ha Hi) in E. injection E as E. subst m.
  split; [reflexivity|]. intros i. cbn [canon mol_of m_inters]. rewrite in_map_iff. split.
  - intros (j & Ej & Hj). apply in_flat_map in Hj. destruct Hj as (c & Hc & Hj). unfold inters_of_sect in Hj.
    apply in_flat_map in Hj. destruct Hj as (g & Hgg & Hj). unfold inters_of_group in Hj. apply in_map_iff in Hj.
    destruct Hj as (it & Eit & Hit). exists c, g, it. repeat split; try assumption. subst j i. reflexivity.
  - intros (c & g & it & Hc & Hgg & Hit & Ei). exists {| i_sec := c_name c; i_atoms := fst it; i_params := snd it; i_guard := g_guard g |}.
    split; [subst i; reflexivity|]. apply in_flat_map. exists c. split; [exact Hc|]. unfold inters_of_sect. apply in_flat_map.
    exists g. split; [exact Hgg|]. unfold inters_of_group. apply in_map_iff. exists it. split; [reflexivity|exact Hit].
Qed.

Example ex_roundtrip :
  let atoms := [{| r_type := "P1"; r_resid := "1"; r_resname := "PEO"; r_name := "EC"; r_cg := "1"; r_charge := Some "0.0"; r_mass := Some "72" |};
                {| r_type := "P1"; r_resid := "2"; r_resname := "PEO"; r_name := "EC"; r_cg := "2"; r_charge := None; r_mass := None |}] in
  let sects := [{| c_name := "bonds"; c_groups := [{| g_guard := None; g_items := [(["1"; "2"], ["1"; "0.33"; "7000"])] |};
                                                     {| g_guard := Some ("FLEX", true); g_items := [(["1"; "2"], ["6"; "0.33"; "7000"])] |}] |};
                {| c_name := "impropers"; c_groups := [{| g_guard := Some ("FLEX", false); g_items := [(["1"; "2"; "1"; "2"], ["2"; "0"; "50"])] |}] |}] in
  read (write ["1"; "2"] "x" "1" atoms sects) = Some (canon (mol_of "x" "1" atoms sects)).
Proof. vm_compute. reflexivity. Qed.
