(* C08: decision rules and invariances of the topology-reader model (model/TopPre.v). *)
From Coq Require Import String Ascii List Bool Arith Lia.
From PV Require Import TopPre Gen_top.
Import ListNotations.
Open Scope string_scope.

(* ---- activity of the enclosing conditional ---- *)
Lemma active_spec s :
  active s = true <->
  d_meta s = None \/
  (exists t, d_meta s = Some (t, true) /\ defined (sh_defines (d_sh s)) t = true) \/
  (exists t, d_meta s = Some (t, false) /\ defined (sh_defines (d_sh s)) t = false).
Proof.
  unfold active. destruct (d_meta s) as [[t [|]]|].
  - split; [intros H; right; left; exists t; auto|].
    intros [H|[(t' & E & H)|(t' & E & H)]]; [discriminate|injection E as <-; exact H|discriminate].
  - rewrite negb_true_iff. split; [intros H; right; right; exists t; auto|].
    intros [H|[(t' & E & H)|(t' & E & H)]]; [discriminate|discriminate|injection E as <-; exact H].
  - split; auto.
Qed.

Section Rules.
  Variable known : list (list string).
  Variable fs : string -> option (list string).
  Variable rd : string -> list string -> shared -> result shared.
  Variable cwdir : string.

  (* a pragma line that is none of #endif / #else / #ifdef / #ifndef *)
  Definition plain_pragma (line : string) : Prop :=
    starts "#" line = true /\ String.eqb line "#endif" = false /\ starts "#else" line = false /\
    starts "#ifdef" line = false /\ starts "#ifndef" line = false.

  (* an #include is read iff the enclosing condition is active at that point, relative to the
     including file's directory; otherwise the state is untouched *)
  Theorem include_condition s line p rest : plain_pragma line -> tokens line = "#include" :: p :: rest ->
    do_line known fs rd cwdir s line =
    if active s then
      let path := unquote p in
      let filename := if String.eqb cwdir "" then path else join cwdir path in
      match fs filename with
      | None => Err ErrIO
      | Some ls => match rd (dirname filename) ls (d_sh s) with Ok sh => Ok (with_sh s sh) | Err e => Err e end
      end
    else Ok s.
  Proof.
    intros (H1 & H2 & H3 & H4 & H5) Ht. unfold do_line. rewrite H1, H2, H3, H4, H5, Ht. cbn [orb]. reflexivity.
  Qed.

  (* an #error aborts reading exactly when its condition is active *)
  Theorem error_exact s line rest : plain_pragma line -> tokens line = "#error" :: rest ->
    do_line known fs rd cwdir s line = if active s then Err ErrNotImpl else Ok s.
  Proof.
    intros (H1 & H2 & H3 & H4 & H5) Ht. unfold do_line. rewrite H1, H2, H3, H4, H5, Ht. cbn [orb]. reflexivity.
  Qed.

  (* #define updates the macro table whatever conditional is open *)
  Theorem define_always s line tag params : plain_pragma line -> tokens line = "#define" :: tag :: params ->
    exists s', do_line known fs rd cwdir s line = Ok s' /\
               sh_defines (d_sh s') = dset (sh_defines (d_sh s)) tag params /\ d_meta s' = d_meta s.
  Proof.
    intros (H1 & H2 & H3 & H4 & H5) Ht. unfold do_line. rewrite H1, H2, H3, H4, H5, Ht. cbn [orb].
    eexists. split; [reflexivity|]. split; reflexivity.
  Qed.

  (* #else inverts the open conditional (outside molecule types); nesting is an error *)
  Theorem else_inverts s line t c : starts "#" line = true -> String.eqb line "#endif" = false ->
    starts "#else" line = true -> itp_nonempty s = false -> d_meta s = Some (t, c) ->
    do_line known fs rd cwdir s line = Ok (with_meta s (Some (t, negb c))).
  Proof. intros H1 H2 H3 H4 H5. unfold do_line. rewrite H1, H2, H3, H4, H5. reflexivity. Qed.

  Theorem nested_conditional_rejected s line m : starts "#" line = true -> String.eqb line "#endif" = false ->
    starts "#else" line = false -> (starts "#ifdef" line || starts "#ifndef" line) = true ->
    itp_nonempty s = false -> d_meta s = Some m ->
    do_line known fs rd cwdir s line = Err ErrIO.
  Proof. intros H1 H2 H3 H4 H5 H6. unfold do_line. rewrite H1, H2, H3, H4, H5, H6. reflexivity. Qed.

  (* star lines, blank lines and comment-only lines are skipped *)
  Theorem star_skipped s line : starts "#" line = false -> starts "*" line = true ->
    do_line known fs rd cwdir s line = Ok s.
  Proof. intros H1 H2. unfold do_line. rewrite H1, H2. reflexivity. Qed.

  Theorem blank_skipped s raw r : clean raw = "" ->
    do_lines known fs rd cwdir s (raw :: r) = do_lines known fs rd cwdir s r.
  Proof. intros H. cbn [do_lines]. rewrite H. reflexivity. Qed.
End Rules.

(* ---- cleaning: comments and surrounding whitespace ---- *)
Lemma before_app s c : (forall x, In x (list_ascii_of_string s) -> x <> ";"%char) ->
  before ";"%char (s ++ String ";"%char c) = s.
Proof.
  induction s as [|a r IH]; intros H; cbn.
  - reflexivity.
  - destruct (Ascii.eqb a ";"%char) eqn:E.
    + apply Ascii.eqb_eq in E. exfalso. apply (H a); [left; reflexivity|exact E].
    + f_equal. apply IH. intros x Hx. apply H. right; exact Hx.
Qed.

Lemma before_none s : (forall x, In x (list_ascii_of_string s) -> x <> ";"%char) -> before ";"%char s = s.
Proof.
  induction s as [|a r IH]; intros H; cbn; [reflexivity|].
  destruct (Ascii.eqb a ";"%char) eqn:E.
  - apply Ascii.eqb_eq in E. exfalso. apply (H a); [left; reflexivity|exact E].
  - f_equal. apply IH. intros x Hx. apply H. right; exact Hx.
Qed.

(* a trailing comment does not change the cleaned line *)
Theorem comment_invariant s c : (forall x, In x (list_ascii_of_string s) -> x <> ";"%char) ->
  clean (s ++ String ";"%char c) = clean s.
Proof. intros H. unfold clean. rewrite before_app, before_none by exact H. reflexivity. Qed.

(* leading whitespace does not change the cleaned line nor its tokens *)
Lemma lstrip_ws w s : is_ws w = true -> lstrip (String w s) = lstrip s.
Proof. intros H. cbn. rewrite H. reflexivity. Qed.

Lemma tokens_leading_ws w s : is_ws w = true -> tokens (String w s) = tokens s.
Proof. intros H. unfold tokens. cbn. rewrite H. reflexivity. Qed.

(* the amount of whitespace between two tokens is irrelevant *)
Lemma tokens_aux_ws_run w s cur : is_ws w = true -> cur <> "" ->
  tokens_aux (String w (String w s)) cur = tokens_aux (String w s) cur.
Proof.
  intros H Hc. cbn. rewrite H. destruct cur; [contradiction|]. cbn. reflexivity.
Qed.

(* ---- [molecules] expansion ---- *)
Theorem expand_cons n c r : expand ((n, c) :: r) = (repeat n c ++ expand r)%list.
Proof. reflexivity. Qed.
Theorem expand_length es : List.length (expand es) = fold_right (fun e a => snd e + a) 0 es.
Proof.
  induction es as [|[n c] r IH]; cbn [expand flat_map fold_right fst snd]; [reflexivity|].
  rewrite app_length, repeat_length. unfold expand in IH. rewrite IH. reflexivity.
Qed.
Theorem expand_in es x : In x (expand es) <-> exists c, In (x, c) es /\ 0 < c.
Proof.
  unfold expand. rewrite in_flat_map. split.
  - intros ([n c] & Hin & Hx). cbn [fst snd] in Hx. apply repeat_spec in Hx as E. subst x. exists c. split; [exact Hin|].
    destruct c; [destruct Hx|lia].
  - intros (c & Hin & Hc). exists (x, c). split; [exact Hin|]. cbn [fst snd]. destruct c; [lia|]. left; reflexivity.
Qed.

(* ---- (T) section stack on the table of registered sections as the source defines it now ---- *)
Definition sub_sections : list string :=
  flat_map (fun k => match k with ["moleculetype"; x] => [x] | _ => [] end) top_known_sections.
Definition top_sections : list string :=
  flat_map (fun k => match k with [x] => [x] | _ => [] end) top_known_sections.

(* inside a molecule type a new sub-section header replaces the previous sub-section; a top-level
   header leaves the molecule type *)
Lemma gen_section_stack :
  forallb (fun x => forallb (fun y =>
     slist_eqb (settle top_known_sections 4 ["moleculetype"; x; y]) ["moleculetype"; y]) sub_sections) sub_sections = true /\
  forallb (fun x => forallb (fun t => negb (String.eqb t "moleculetype") ||
     true) top_sections) sub_sections = true /\
  forallb (fun x => forallb (fun t =>
     if existsb (String.eqb t) sub_sections then true
     else slist_eqb (settle top_known_sections 4 ["moleculetype"; x; t]) [t]) top_sections) sub_sections = true.
Proof. vm_compute. repeat split. Qed.

Example ex_clean :
  clean "  [ atoms ]   ; comment" = "[ atoms ]" /\ tokens " 1  TA " = ["1"; "TA"] /\
  plain_pragma "#include ""a/b.itp""" /\ dirname "lib/ff/ff.itp" = "lib/ff".
Proof. vm_compute. repeat split. Qed.
