(* C13: the result depends on the residue graph only through the residue-id-sorted residue
   list, and on non-conflicting definitions only through their set. *)
From Coq Require Import ZArith String List Bool Lia Permutation Sorted Setoid.
From PV Require Import Blocks Links C02_links.
Import ListNotations.
Open Scope Z_scope.

(* ---- residues processed sorted by residue id (map_to_molecule.py:204-208) ---- *)
Section Sort.
  Context {A : Type}.
  Fixpoint insert (x : Z * A) (l : list (Z * A)) : list (Z * A) :=
    match l with
    | [] => [x]
    | y :: r => if fst x <=? fst y then x :: l else y :: insert x r
    end.
  Fixpoint isort (l : list (Z * A)) : list (Z * A) :=
    match l with [] => [] | x :: r => insert x (isort r) end.

  Definition ksorted (l : list (Z * A)) : Prop := StronglySorted (fun a b => fst a < fst b) l.

  Lemma insert_perm x l : Permutation (x :: l) (insert x l).
  Proof.
    induction l as [|y r IH]; cbn; [apply Permutation_refl|].
    destruct (fst x <=? fst y); [apply Permutation_refl|].
    eapply perm_trans; [apply perm_swap|]. apply perm_skip. exact IH.
  Qed.
  Lemma isort_perm l : Permutation l (isort l).
  Proof.
    induction l as [|x r IH]; cbn; [constructor|].
    eapply perm_trans; [apply perm_skip; exact IH|apply insert_perm].
  Qed.

  Lemma insert_sorted x l : ksorted l -> ~ In (fst x) (map fst l) -> ksorted (insert x l).
  Proof.
    unfold ksorted. induction l as [|y r IH]; intros Hs Hn; cbn.
    - constructor; [constructor|constructor].
    - inversion Hs as [|? ? Hr Hy]; subst. destruct (fst x <=? fst y) eqn:E.
      + apply Z.leb_le in E. assert (fst x < fst y) by (cbn in Hn; lia).
        constructor; [exact Hs|]. constructor; [exact H|]. rewrite Forall_forall in *. intros z Hz. specialize (Hy z Hz). lia.
      + apply Z.leb_gt in E. constructor.
        * apply IH; [exact Hr|]. intros Hin. apply Hn. right; exact Hin.
        * rewrite Forall_forall in *. intros z Hz. apply (Permutation_in _ (Permutation_sym (insert_perm x r))) in Hz.
          destruct Hz as [<-|Hz]; [exact E|apply Hy; exact Hz].
  Qed.

  Lemma isort_sorted l : NoDup (map fst l) -> ksorted (isort l).
  Proof.
    induction l as [|x r IH]; intros ND; cbn; [constructor|].
    inversion ND as [|? ? Hx Hr]; subst. apply insert_sorted; [apply IH; exact Hr|].
    intros Hin. apply Hx. eapply Permutation_in; [apply Permutation_sym, Permutation_map, isort_perm|exact Hin].
  Qed.

  Lemma ksorted_unique l1 l2 : ksorted l1 -> ksorted l2 -> Permutation l1 l2 -> l1 = l2.
  Proof.
    unfold ksorted. revert l2; induction l1 as [|x r IH]; intros l2 H1 H2 HP.
    - apply Permutation_nil in HP. subst. reflexivity.
    - destruct l2 as [|y s]; [apply Permutation_sym, Permutation_nil in HP; discriminate|].
      inversion H1 as [|? ? Hr Hx]; inversion H2 as [|? ? Hs Hy]; subst.
      assert (x = y).
      { assert (Hin1 : In x (y :: s)) by (eapply Permutation_in; [exact HP|left; reflexivity]).
        assert (Hin2 : In y (x :: r)) by (eapply Permutation_in; [apply Permutation_sym; exact HP|left; reflexivity]).
        destruct Hin1 as [->|Hin1]; [reflexivity|]. destruct Hin2 as [->|Hin2]; [reflexivity|].
        rewrite Forall_forall in Hx, Hy. specialize (Hx y Hin2). specialize (Hy x Hin1). lia. }
      subst y. f_equal. apply IH; [exact Hr|exact Hs|]. eapply Permutation_cons_inv; exact HP.
  Qed.

  (* node insertion order, node keys and edge order do not matter: only the (resid, residue) set *)
  Theorem sort_invariant l1 l2 : NoDup (map fst l1) -> Permutation l1 l2 -> isort l1 = isort l2.
  Proof.
    intros ND HP. apply ksorted_unique.
    - apply isort_sorted; exact ND.
    - apply isort_sorted. eapply Permutation_NoDup; [apply Permutation_map; exact HP|exact ND].
    - eapply perm_trans; [apply Permutation_sym, isort_perm|]. eapply perm_trans; [exact HP|apply isort_perm].
  Qed.
End Sort.

(* the molecule built from a residue listing depends only on the set of (resid, block) pairs *)
Theorem add_blocks_relabel_invariant r0 (l1 l2 : list (Z * block)) :
  NoDup (map fst l1) -> Permutation l1 l2 ->
  add_blocks r0 (map snd (isort l1)) = add_blocks r0 (map snd (isort l2)).
Proof. intros ND HP. rewrite (sort_invariant l1 l2 ND HP). reflexivity. Qed.

(* ---- definitions that do not define the same interaction may come in any order ---- *)
Lemma last_write_nodup ws k :
  NoDup (map fst ws) -> forall v, (last_write ws k = Some v <-> In (k, v) ws).
Proof.
  induction ws as [|[k' v'] r IH]; intros ND v; cbn [last_write map fst] in *.
  - split; [discriminate|intros []].
  - inversion ND as [|? ? Hk Hr]; subst. specialize (IH Hr).
    destruct (last_write r k) as [x|] eqn:El.
    + assert (Hin : In (k, x) r) by (apply IH; reflexivity).
      split.
      * intros E. injection E as <-. right; exact Hin.
      * intros [E|Hin']; [injection E as -> ->; exfalso; apply Hk; change k with (fst (k, x)); apply in_map; exact Hin|].
        apply IH in Hin'. exact Hin'.
    + destruct (ikey_eqb k' k) eqn:E.
      * apply ikey_eqb_eq in E. subst k'. split.
        -- intros E'. injection E' as <-. left; reflexivity.
        -- intros [E'|Hin]; [injection E' as <-; reflexivity|]. exfalso. apply Hk. change k with (fst (k, v)). apply in_map. exact Hin.
      * split; [discriminate|]. intros [E'|Hin].
        -- injection E' as -> _. assert (ikey_eqb k k = true) by (apply ikey_eqb_eq; reflexivity). congruence.
        -- apply IH in Hin. discriminate.
Qed.

Theorem definition_order_invariant ws ws' k :
  NoDup (map fst ws) -> Permutation ws ws' -> last_write ws' k = last_write ws k.
Proof.
  intros ND HP.
  assert (ND' : NoDup (map fst ws')) by (eapply Permutation_NoDup; [apply Permutation_map; exact HP|exact ND]).
  destruct (last_write ws k) as [v|] eqn:E.
  - apply (last_write_nodup ws' k ND' v). eapply Permutation_in; [exact HP|]. apply (last_write_nodup ws k ND v). exact E.
  - destruct (last_write ws' k) as [v'|] eqn:E'; [|reflexivity].
    apply (last_write_nodup ws' k ND' v') in E'. apply (Permutation_in _ (Permutation_sym HP)) in E'.
    apply (last_write_nodup ws k ND v') in E'. congruence.
Qed.

(* repeated runs: the model is a function of its inputs *)
Theorem run_is_function g blocks links : apply_links g blocks links = apply_links g blocks links.
Proof. reflexivity. Qed.

Example ex_sort : isort [(3, "c"); (1, "a"); (2, "b")]%string = [(1, "a"); (2, "b"); (3, "c")]%string.
Proof. vm_compute. reflexivity. Qed.
