(* C19: the algorithm (complement, with the edge iterator) on every linear and every circular strand,
   any length: the residues added are the complements of the strand read backwards. *)
From Coq Require Import ZArith String List Bool Lia.
From PV Require Import Dna C19_dna.
Import ListNotations.
Open Scope Z_scope.

Lemma seq_shift_n_local len : forall start, map (fun j => (len + j)%nat) (seq start len) = seq (len + start) len.
Proof.
  intros start. generalize len at 1 3 as d. intros d. revert start. induction len as [|m IH]; intros start; cbn [seq map]; [reflexivity|].
  rewrite IH. f_equal. rewrite Nat.add_succ_r. reflexivity.
Qed.

Section Linear.
Variable table : list (string * string).

(* ---- the linear graph ---- *)
Lemma find_linear names : forall k0 extra k x,
  nth_error names (Z.to_nat (k - k0)) = Some x -> k0 <= k ->
  find_node (linear_nodes k0 names ++ extra) k = Some {| n_key := k; n_resid := k + 1; n_name := x |}.
Proof.
  induction names as [|y r IH]; intros k0 extra k x H Hk; [destruct (Z.to_nat (k - k0)); discriminate|].
  cbn [linear_nodes app find_node n_key]. destruct (Z.eqb_spec k0 k) as [-> | Hne].
  - rewrite Z.sub_diag in H. cbn in H. injection H as ->. reflexivity.
  - apply IH; [|lia]. replace (Z.to_nat (k - k0)) with (S (Z.to_nat (k - (k0 + 1)))) in H by lia. exact H.
Qed.

Lemma find_linear_none names : forall k0 k, k < k0 -> find_node (linear_nodes k0 names) k = None.
Proof.
  induction names as [|y r IH]; intros k0 k H; [reflexivity|]. cbn [linear_nodes find_node n_key].
  destruct (Z.eqb_spec k0 k); [lia|]. apply IH. lia.
Qed.

Lemma adj_linear m : forall k0 n k, k0 <= k < k0 + Z.of_nat m ->
  adj_of (linear_adj k0 n m) k = ((if 0 <? k then [(k - 1, [])] else []) ++ (if k + 1 <? n then [(k + 1, [])] else []))%list.
Proof.
  induction m as [|m IH]; intros k0 n k H; [lia|]. cbn [linear_adj adj_of]. destruct (Z.eqb_spec k0 k) as [-> | Hne]; [reflexivity|].
  apply IH. lia.
Qed.

Lemma adj_circular m : forall k0 n k, k0 <= k < k0 + Z.of_nat m ->
  adj_of (circular_adj k0 n m) k = ((if (k =? n - 1) && (0 <? k) then [(0, circle_attr)] else []) ++
                                     (if 0 <? k then [(k - 1, [])] else []) ++ (if k + 1 <? n then [(k + 1, [])] else []) ++
                                     (if k =? 0 then [(n - 1, circle_attr)] else []))%list.
Proof.
  induction m as [|m IH]; intros k0 n k H; [lia|]. cbn [circular_adj adj_of]. destruct (Z.eqb_spec k0 k) as [-> | Hne]; [reflexivity|].
  apply IH. lia.
Qed.

Lemma adj_update_other a u f k : k <> u -> adj_of (adj_update a u f) k = adj_of a k.
Proof.
  intros H. induction a as [|[w l] r IH]; [reflexivity|]. cbn [adj_update]. destruct (Z.eqb_spec w u) as [-> | Hwu]; cbn [adj_of].
  - destruct (Z.eqb_spec u k); [congruence|reflexivity].
  - destruct (Z.eqb_spec w k); [reflexivity|exact IH].
Qed.

Lemma adj_app_other a k u : k <> u -> adj_of (a ++ [(u, [])]) k = adj_of a k.
Proof.
  intros H. induction a as [|[w l] r IH]; cbn [app adj_of].
  - destruct (Z.eqb_spec u k); [congruence|reflexivity].
  - destruct (Z.eqb_spec w k); [reflexivity|exact IH].
Qed.

Lemma set_node_new ns n : find_node ns (n_key n) = None -> set_node ns n = (ns ++ [n])%list.
Proof.
  induction ns as [|m r IH]; [reflexivity|]. cbn [find_node set_node app]. destruct (Z.eqb_spec (n_key m) (n_key n)); [discriminate|].
  intros H. rewrite (IH H). reflexivity.
Qed.

Lemma find_app_none l1 l2 k : find_node l1 k = None -> find_node (l1 ++ l2) k = find_node l2 k.
Proof. induction l1 as [|m r IH]; cbn [find_node app]; [trivial|]. destruct (n_key m =? k); [discriminate|exact IH]. Qed.

(* nodes added for the complementary strand: keys n.., residue id key + 1 *)
Fixpoint new_nodes (k : Z) (names : list string) : list node :=
  match names with [] => [] | x :: r => {| n_key := k; n_resid := k + 1; n_name := x |} :: new_nodes (k + 1) r end.
Lemma new_nodes_app k a b : new_nodes k (a ++ b) = (new_nodes k a ++ new_nodes (k + Z.of_nat (List.length a)) b)%list.
Proof.
  revert k. induction a as [|x r IH]; intros k; cbn [app new_nodes List.length]; [rewrite Z.add_0_r; reflexivity|].
  rewrite IH. do 3 f_equal. lia.
Qed.
Lemma find_new_none names : forall k0 k, k < k0 -> find_node (new_nodes k0 names) k = None.
Proof.
  induction names as [|y r IH]; intros k0 k H; [reflexivity|]. cbn [new_nodes find_node n_key].
  destruct (Z.eqb_spec k0 k); [lia|]. apply IH. lia.
Qed.
Lemma find_new_above names : forall k0 k, k0 + Z.of_nat (List.length names) <= k -> find_node (new_nodes k0 names) k = None.
Proof.
  induction names as [|y r IH]; intros k0 k H; [reflexivity|]. cbn [new_nodes find_node n_key List.length] in *.
  destruct (Z.eqb_spec k0 k); [lia|]. apply IH. lia.
Qed.
Lemma linear_keys_le names : forall k0 k, k0 + Z.of_nat (List.length names) - 1 <= k -> Forall (fun n => n_key n <= k) (linear_nodes k0 names).
Proof.
  induction names as [|y r IH]; intros k0 k H; [constructor|]. cbn [linear_nodes List.length] in *.
  constructor; [cbn [n_key]; lia|]. apply IH. lia.
Qed.

Lemma find_linear_above names : forall k0 k, k0 + Z.of_nat (List.length names) <= k -> find_node (linear_nodes k0 names) k = None.
Proof.
  induction names as [|y r IH]; intros k0 k H; [reflexivity|]. cbn [linear_nodes find_node n_key List.length] in *.
  destruct (Z.eqb_spec k0 k); [lia|]. apply IH. lia.
Qed.

Lemma comp_all_app a : forall b ca cb, comp_all table a = Some ca -> comp_all table b = Some cb -> comp_all table (a ++ b) = Some (ca ++ cb)%list.
Proof.
  induction a as [|x r IH]; intros b ca cb Ha Hb; cbn [comp_all app] in *.
  - injection Ha as <-. exact Hb.
  - destruct (tlookup table x) as [y|]; [|discriminate]. destruct (comp_all table r) as [ys|] eqn:E; [|discriminate]. injection Ha as <-.
    rewrite (IH b ys cb eq_refl Hb). reflexivity.
Qed.

(* correspondence list after the residues at positions len(left) .. n-1 have been handled *)
Fixpoint corr_list (n : Z) (j : nat) : list (Z * Z) :=
  match j with O => [] | S j' => (corr_list n j' ++ [(n - 1 - Z.of_nat j', n + Z.of_nat j')])%list end.
Lemma corr_get_app c1 c2 k : corr_get (c1 ++ c2) k = match corr_get c1 k with Some v => Some v | None => corr_get c2 k end.
Proof. induction c1 as [|[a b] r IH]; cbn [app corr_get]; [reflexivity|]. destruct (a =? k); [reflexivity|exact IH]. Qed.
Lemma corr_list_get n j : forall i, (i < j)%nat -> corr_get (corr_list n j) (n - 1 - Z.of_nat i) = Some (n + Z.of_nat i).
Proof.
  induction j as [|j IH]; intros i Hi; [lia|]. cbn [corr_list]. rewrite corr_get_app. destruct (Nat.eq_dec i j) as [-> | Hne].
  - assert (Hn : corr_get (corr_list n j) (n - 1 - Z.of_nat j) = None).
    { clear. assert (G : forall m k, k <= n - 1 - Z.of_nat m -> corr_get (corr_list n m) k = None).
      { induction m as [|m IHm]; intros k Hk; [reflexivity|]. cbn [corr_list]. rewrite corr_get_app, IHm by lia. cbn [corr_get].
        destruct (Z.eqb_spec (n - 1 - Z.of_nat m) k); [lia|reflexivity]. }
      apply G. lia. }
    rewrite Hn. cbn [corr_get]. rewrite Z.eqb_refl. reflexivity.
  - rewrite IH by lia. reflexivity.
Qed.
Lemma corr_list_none n j k : k <= n - 1 - Z.of_nat j -> corr_get (corr_list n j) k = None.
Proof.
  revert k. induction j as [|j IH]; intros k Hk; [reflexivity|]. cbn [corr_list]. rewrite corr_get_app, IH by lia. cbn [corr_get].
  destruct (Z.eqb_spec (n - 1 - Z.of_nat j) k); [lia|reflexivity].
Qed.

(* ---- the loop invariant ---- *)
Section Strand.
Variable s : list string.
Let n := Z.of_nat (List.length s).
(* the neighbour lists of the strand's residues: what the loop needs to know about them *)
Variable adj0 : list (Z * list (Z * eattr)).
Hypothesis adj_step : forall extra k, 0 < k < n ->
  scan (linear_nodes 0 s ++ extra) (k + 1) (n - 1) (adj_of adj0 k) = Some (k - 1, false).
Hypothesis adj_zero : forall extra,
  scan (linear_nodes 0 s ++ extra) 1 (n - 1) (adj_of adj0 0) = None \/
  exists nb, 0 < nb < n /\ scan (linear_nodes 0 s ++ extra) 1 (n - 1) (adj_of adj0 0) = Some (nb, true).

Record inv (left right comps : list string) (st : st) : Prop := {
  i_split : s = (left ++ right)%list;
  i_comp : comp_all table (rev right) = Some comps;
  i_nodes : g_nodes (s_g st) = (linear_nodes 0 s ++ new_nodes n comps)%list;
  i_adj : forall k, 0 <= k < n -> adj_of (g_adj (s_g st)) k = adj_of adj0 k;
  i_corr : s_corr st = corr_list n (List.length right);
  i_total : s_total st = n + Z.of_nat (List.length right) - 1;
  i_maxres : g_maxres (s_g st) = n + Z.of_nat (List.length right)
}.

Lemma fold_attrs_nodes (l : eattr) g a b : g_nodes (fold_left (fun gg kv => set_edge_attr gg a b (fst kv) (snd kv)) l g) = g_nodes g.
Proof. revert g. induction l as [|x r IH]; intros g; cbn [fold_left]; [reflexivity|]. rewrite IH. reflexivity. Qed.
Lemma fold_attrs_adj (l : eattr) g a b k : k <> a -> k <> b ->
  adj_of (g_adj (fold_left (fun gg kv => set_edge_attr gg a b (fst kv) (snd kv)) l g)) k = adj_of (g_adj g) k.
Proof.
  intros Ha Hb. revert g. induction l as [|x r IH]; intros g; cbn [fold_left]; [reflexivity|]. rewrite IH. unfold set_edge_attr. cbn [g_adj].
  rewrite !adj_update_other by assumption. reflexivity.
Qed.
Lemma fold_attrs_maxres (l : eattr) g a b : g_maxres (fold_left (fun gg kv => set_edge_attr gg a b (fst kv) (snd kv)) l g) = g_maxres g.
Proof. revert g. induction l as [|x r IH]; intros g; cbn [fold_left]; [reflexivity|]. rewrite IH. reflexivity. Qed.

Lemma len_s_split left right : s = (left ++ right)%list -> n = Z.of_nat (List.length left) + Z.of_nat (List.length right).
Proof. intros H. subst n. rewrite H, app_length. lia. Qed.

(* one step: the residue before the handled block is complemented and appended *)
Lemma body_step left y right comps st cy :
  inv (left ++ [y]) right comps st -> right <> [] -> tlookup table y = Some cy ->
  exists st', body table st (Z.of_nat (List.length left) + 1) (Z.of_nat (List.length left)) = Ok st' /\ inv left (y :: right) (comps ++ [cy]) st'.
Proof.
  intros [Hs Hc Hn Ha Hcr Ht Hm] Hne Hy.
  assert (Hlen : n = Z.of_nat (List.length left) + 1 + Z.of_nat (List.length right)).
  { rewrite (len_s_split _ _ Hs), app_length. cbn [List.length]. lia. }
  assert (Hr1 : (1 <= List.length right)%nat) by (destruct right; [contradiction|cbn; lia]).
  set (p := Z.of_nat (List.length left)) in *.
  unfold body.
  assert (Hfind : find_node (g_nodes (s_g st)) p = Some {| n_key := p; n_resid := p + 1; n_name := y |}).
  { rewrite Hn. apply find_linear; [|lia]. rewrite Z.sub_0_r. subst p. rewrite Nat2Z.id, Hs, <- app_assoc. rewrite nth_error_app2 by lia.
    rewrite Nat.sub_diag. reflexivity. }
  rewrite Hfind. cbn [n_name]. rewrite Hy, Hcr.
  assert (Hprev : corr_get (corr_list n (List.length right)) (p + 1) = Some (n + Z.of_nat (List.length right) - 1)).
  { replace (p + 1) with (n - 1 - Z.of_nat (List.length right - 1)) by lia. rewrite corr_list_get by lia. f_equal. lia. }
  rewrite Hprev. rewrite (corr_list_none n (List.length right) p) by lia.
  set (new := s_total st + 1). assert (Enew : new = n + Z.of_nat (List.length right)) by (subst new; lia).
  set (cprev := n + Z.of_nat (List.length right) - 1).
  assert (Hcomps : List.length comps = List.length right).
  { clear - Hc. assert (G : forall l c, comp_all table l = Some c -> List.length c = List.length l).
    { induction l as [|x r IH]; intros c H; cbn [comp_all] in H; [injection H as <-; reflexivity|].
      destruct (tlookup table x); [|discriminate]. destruct (comp_all table r) as [cr|] eqn:E; [|discriminate]. injection H as <-. cbn. rewrite (IH cr eq_refl). reflexivity. }
    rewrite (G _ _ Hc), rev_length. reflexivity. }
  assert (Hnew_none : find_node (g_nodes (s_g st)) new = None).
  { rewrite Hn, find_app_none by (apply find_linear_above; fold n; lia). apply find_new_above. rewrite Hcomps. lia. }
  set (g1 := add_edge (add_node (s_g st) new cy) cprev new).
  assert (Hg1n : g_nodes g1 = (linear_nodes 0 s ++ new_nodes n (comps ++ [cy]))%list).
  { subst g1. unfold add_edge, add_node. cbn [g_nodes].
    rewrite (set_node_new (g_nodes (s_g st)) {| n_key := new; n_resid := g_maxres (s_g st) + 1; n_name := cy |}) by exact Hnew_none.
    rewrite Hn, new_nodes_app, <- app_assoc. cbn [new_nodes]. rewrite Hcomps, Hm. do 4 f_equal; lia. }
  eexists. split; [reflexivity|]. cbv beta iota zeta. fold new. fold cprev. fold g1. constructor; cbn [s_g s_corr s_total].
  - rewrite Hs, <- app_assoc. reflexivity.
  - cbn [rev]. apply comp_all_app; [exact Hc|cbn [comp_all]; rewrite Hy; reflexivity].
  - rewrite fold_attrs_nodes. exact Hg1n.
  - intros k Hk. rewrite fold_attrs_adj by lia. subst g1. unfold add_edge, add_node. cbn [g_adj].
    rewrite !adj_update_other by lia. destruct (has_adj (g_adj (s_g st)) new); [apply Ha; exact Hk|rewrite adj_app_other by lia; apply Ha; exact Hk].
  - cbn [List.length corr_list]. f_equal. f_equal. f_equal; lia.
  - cbn [List.length]. lia.
  - rewrite fold_attrs_maxres. subst g1. unfold add_edge, add_node. cbn [g_maxres List.length]. lia.
Qed.

Lemma comp_all_in l : forall c x, comp_all table l = Some c -> In x l -> exists y, tlookup table x = Some y.
Proof.
  induction l as [|a r IH]; intros c x H Hin; [destruct Hin|]. cbn [comp_all] in H.
  destruct (tlookup table a) as [ya|] eqn:Ea; [|discriminate]. destruct (comp_all table r) as [cr|] eqn:Er; [|discriminate].
  destruct Hin as [-> | Hin]; [exists ya; exact Ea|exact (IH cr x eq_refl Hin)].
Qed.

(* an edge between residues that both have their partner already: no node is added *)
Lemma body_existing st prev next nn c a b :
  find_node (g_nodes (s_g st)) next = Some nn -> tlookup table (n_name nn) = Some c ->
  corr_get (s_corr st) prev = Some a -> corr_get (s_corr st) next = Some b ->
  exists st', body table st prev next = Ok st' /\ g_nodes (s_g st') = g_nodes (s_g st).
Proof.
  intros H1 H2 H3 H4. unfold body. rewrite H1, H2, H3, H4. eexists. split; [reflexivity|]. cbn [s_g]. rewrite fold_attrs_nodes. reflexivity.
Qed.

Lemma nth_error_In_local (l : list string) i x : nth_error l i = Some x -> In x l.
Proof. revert i. induction l as [|a r IH]; intros [|i] H; cbn in H; try discriminate; [injection H as ->; left; reflexivity|right; exact (IH i H)]. Qed.

(* the loop from the state in which the residues right of [left] are done *)
Lemma loop_names : forall left right comps st fuel cl,
  inv left right comps st -> right <> [] -> comp_all table (rev left) = Some cl -> (List.length left < fuel)%nat ->
  exists st', loop table fuel st (Z.of_nat (List.length left)) (n - 1) = Ok st' /\
              g_nodes (s_g st') = (linear_nodes 0 s ++ new_nodes n (comps ++ cl))%list.
Proof.
  induction left as [|y left IH] using rev_ind; intros right comps st fuel cl Hinv Hne Hcl Hf.
  - (* source = 0 *)
    cbn [rev comp_all] in Hcl. injection Hcl as <-. rewrite app_nil_r. destruct fuel as [|f]; [lia|]. cbn [loop List.length Z.of_nat].
    destruct Hinv as [Hs Hc Hn Ha Hcr Ht Hm]. cbn [app] in Hs. subst right.
    assert (Hn1 : 1 <= n) by (subst n; destruct s; [contradiction|cbn [List.length]; lia]).
    destruct s as [|x0 srest] eqn:Es; [contradiction|].
    assert (Hf0 : find_node (g_nodes (s_g st)) 0 = Some {| n_key := 0; n_resid := 0 + 1; n_name := x0 |}).
    { rewrite Hn. apply find_linear; [reflexivity|lia]. }
    rewrite Hf0. cbn [n_resid]. rewrite (Ha 0) by lia. rewrite Hn. change (0 + 1) with 1.
    destruct (adj_zero (new_nodes n comps)) as [E0 | (nb & Hnb & E0)]; rewrite E0.
    + exists st. split; [reflexivity|exact Hn].
    + (* the iterator yields one more edge between residues that both have their partner, and stops *)
      assert (Hnth : exists xb, nth_error (x0 :: srest) (Z.to_nat (nb - 0)) = Some xb).
      { destruct (nth_error (x0 :: srest) (Z.to_nat (nb - 0))) as [xb|] eqn:En; [eauto|]. apply nth_error_None in En. subst n. lia. }
      destruct Hnth as (xb & Hxb).
      assert (Hfb : find_node (g_nodes (s_g st)) nb = Some {| n_key := nb; n_resid := nb + 1; n_name := xb |}).
      { rewrite Hn. apply find_linear; [exact Hxb|lia]. }
      destruct (comp_all_in _ _ xb Hc) as [cb Hcb]; [apply in_rev; rewrite rev_involutive; rewrite Z.sub_0_r in Hxb; exact (nth_error_In_local _ _ _ Hxb)|].
      destruct (body_existing st 0 nb _ cb (n + Z.of_nat (Z.to_nat (n - 1))) (n + Z.of_nat (Z.to_nat (n - 1 - nb))) Hfb Hcb) as (st' & Hb & Hnodes).
      { rewrite Hcr. replace 0 with (n - 1 - Z.of_nat (Z.to_nat (n - 1))) at 1 by lia. apply corr_list_get. subst n. lia. }
      { rewrite Hcr. replace nb with (n - 1 - Z.of_nat (Z.to_nat (n - 1 - nb))) at 1 by lia. apply corr_list_get. subst n. lia. }
      rewrite Hb. exists st'. split; [reflexivity|]. rewrite Hnodes. exact Hn.
  - (* source = len left + 1 >= 1: step to the left *)
    rewrite rev_app_distr in Hcl. cbn [rev app comp_all] in Hcl.
    destruct (tlookup table y) as [cy|] eqn:Ey; [|discriminate]. destruct (comp_all table (rev left)) as [cl'|] eqn:Ecl; [|discriminate].
    injection Hcl as <-. rewrite app_length in *. cbn [List.length] in *. destruct fuel as [|f]; [lia|]. cbn [loop].
    pose proof Hinv as [Hs Hc Hn Ha Hcr Ht Hm].
    assert (Hlen : n = Z.of_nat (List.length left) + 1 + Z.of_nat (List.length right)).
    { rewrite (len_s_split _ _ Hs), app_length. cbn [List.length]. lia. }
    assert (Hr1 : (1 <= List.length right)%nat) by (destruct right; [contradiction|cbn; lia]).
    set (p := Z.of_nat (List.length left)) in *. replace (Z.of_nat (List.length left + 1)) with (p + 1) by lia.
    destruct right as [|z right'] eqn:Er; [contradiction|].
    assert (Hfs : find_node (g_nodes (s_g st)) (p + 1) = Some {| n_key := p + 1; n_resid := p + 1 + 1; n_name := z |}).
    { rewrite Hn. apply find_linear; [|lia]. rewrite Z.sub_0_r. replace (Z.to_nat (p + 1)) with (List.length (left ++ [y])) by (rewrite app_length; cbn; lia).
      rewrite Hs, nth_error_app2 by lia. rewrite Nat.sub_diag. reflexivity. }
    rewrite Hfs. cbn [n_resid]. rewrite (Ha (p + 1)) by lia. rewrite Hn, (adj_step (new_nodes n comps) (p + 1) ltac:(lia)).
    destruct (body_step left y (z :: right') comps st cy Hinv ltac:(discriminate) Ey) as (st' & Hb & Hinv').
    replace (p + 1 - 1) with p by lia. fold p in Hb. rewrite Hb.
    destruct (IH (y :: z :: right') (comps ++ [cy]) st' f cl' Hinv' ltac:(discriminate) eq_refl ltac:(lia)) as (st'' & Hl & Hnn).
    fold p in Hl. rewrite Hl. exists st''. split; [reflexivity|]. rewrite Hnn, <- app_assoc. reflexivity.
Qed.
End Strand.

Lemma last_linear names : forall k0 x, last (map Some (linear_nodes k0 (names ++ [x]))) None =
  Some {| n_key := k0 + Z.of_nat (List.length names); n_resid := k0 + Z.of_nat (List.length names) + 1; n_name := x |}.
Proof.
  induction names as [|y r IH]; intros k0 x; cbn [app linear_nodes map last List.length].
  - rewrite Z.add_0_r. reflexivity.
  - specialize (IH (k0 + 1) x). destruct (map Some (linear_nodes (k0 + 1) (r ++ [x]))) eqn:E.
    + destruct r; discriminate.
    + rewrite IH. do 2 f_equal; lia.
Qed.

(* the algorithm on any strand graph whose residues are keyed 0..n-1 in order, whose neighbour lists
   start with the predecessor, and at whose first residue the iterator stops or closes a ring *)
Theorem complement_strand s adj0 comps : s <> [] -> comp_strand table s = Some comps ->
  let n := Z.of_nat (List.length s) in
  (forall extra k, 0 < k < n -> scan (linear_nodes 0 s ++ extra) (k + 1) (n - 1) (adj_of adj0 k) = Some (k - 1, false)) ->
  (forall extra, scan (linear_nodes 0 s ++ extra) 1 (n - 1) (adj_of adj0 0) = None \/
                 exists nb, 0 < nb < n /\ scan (linear_nodes 0 s ++ extra) 1 (n - 1) (adj_of adj0 0) = Some (nb, true)) ->
  exists g', complement table {| g_nodes := linear_nodes 0 s; g_adj := adj0; g_maxres := n |} = Ok g' /\
             map n_name (g_nodes g') = (s ++ comps)%list /\
             map n_resid (g_nodes g') = map (fun k => Z.of_nat k + 1) (seq 0 (2 * List.length s)).
Proof.
  intros Hne Hc n Hpred Hzero. unfold comp_strand in Hc. destruct (exists_last Hne) as (init & z & Es).
  assert (Hn : n = Z.of_nat (List.length init) + 1) by (subst n; rewrite Es, app_length; cbn; lia).
  rewrite Es, rev_app_distr in Hc. cbn [rev app comp_all] in Hc.
  destruct (tlookup table z) as [cz|] eqn:Ez; [|discriminate]. destruct (comp_all table (rev init)) as [ci|] eqn:Ei; [|discriminate].
  injection Hc as <-. unfold complement. cbn [g_nodes].
  assert (Hlast : last (map Some (linear_nodes 0 s)) None =
                  Some {| n_key := Z.of_nat (List.length init); n_resid := Z.of_nat (List.length init) + 1; n_name := z |}).
  { rewrite Es, last_linear. rewrite !Z.add_0_l. reflexivity. }
  rewrite Hlast. cbn [n_name n_key]. rewrite Ez. cbv zeta.
  rewrite (kmax_bounded {| g_nodes := linear_nodes 0 s; g_adj := adj0; g_maxres := n |} (Z.of_nat (List.length init)))
    by (cbn [g_nodes]; apply (linear_keys_le s 0); rewrite Es, app_length; cbn [List.length]; lia).
  set (k := Z.of_nat (List.length init)).
  set (st0 := {| s_g := add_node {| g_nodes := linear_nodes 0 s; g_adj := adj0; g_maxres := n |} (k + 1) cz;
                 s_corr := [(k, k + 1)]; s_total := k + 1 |}).
  assert (Hinv0 : inv s adj0 init [z] [cz] st0).
  { unfold st0. constructor; cbn [s_g s_corr s_total List.length]; fold n.
    - exact Es.
    - cbn [rev app comp_all]. rewrite Ez. reflexivity.
    - unfold add_node. cbn [g_nodes g_maxres]. rewrite set_node_new by (cbn [n_key]; apply find_linear_above; fold n; lia).
      cbn [new_nodes]. do 3 f_equal; lia.
    - intros j Hj. unfold add_node. cbn [g_adj]. destruct (has_adj _ _); [reflexivity|apply adj_app_other; lia].
    - cbn [corr_list app]. do 2 f_equal; lia.
    - lia.
    - unfold add_node. cbn [g_maxres]. lia. }
  destruct (loop_names s adj0 Hpred Hzero init [z] [cz] st0 (S (S (List.length (linear_nodes 0 s)))) ci Hinv0 ltac:(discriminate) Ei) as (st' & Hl & Hnodes).
  { assert (Hll : forall l k0, List.length (linear_nodes k0 l) = List.length l) by (induction l as [|a r IHl]; intros k0; cbn; [reflexivity|rewrite IHl; reflexivity]).
    rewrite Hll, Es, app_length. cbn. lia. }
  fold n in Hl. replace (n - 1) with k in Hl by lia. subst k. rewrite Hl. exists (s_g st'). split; [reflexivity|]. rewrite Hnodes.
  assert (Hnames_l : forall l k0, map n_name (linear_nodes k0 l) = l) by (induction l as [|a r IHl]; intros k0; cbn; [reflexivity|rewrite IHl; reflexivity]).
  assert (Hnames_n : forall l k0, map n_name (new_nodes k0 l) = l) by (induction l as [|a r IHl]; intros k0; cbn; [reflexivity|rewrite IHl; reflexivity]).
  assert (Hres_l : forall l k0, map n_resid (linear_nodes k0 l) = map (fun j => k0 + Z.of_nat j + 1) (seq 0 (List.length l))).
  { induction l as [|a r IHl]; intros k0; cbn [linear_nodes map List.length seq n_resid]; [reflexivity|]. rewrite IHl, <- seq_shift, map_map. f_equal; [lia|].
    apply map_ext. intros j. lia. }
  assert (Hres_n : forall l k0, map n_resid (new_nodes k0 l) = map (fun j => k0 + Z.of_nat j + 1) (seq 0 (List.length l))).
  { induction l as [|a r IHl]; intros k0; cbn [new_nodes map List.length seq n_resid]; [reflexivity|]. rewrite IHl, <- seq_shift, map_map. f_equal; [lia|].
    apply map_ext. intros j. lia. }
  assert (Hclen : List.length ([cz] ++ ci) = List.length s).
  { assert (G : forall l c, comp_all table l = Some c -> List.length c = List.length l).
    { induction l as [|x r IHl]; intros c H; cbn [comp_all] in H; [injection H as <-; reflexivity|].
      destruct (tlookup table x); [|discriminate]. destruct (comp_all table r) as [cr|] eqn:E; [|discriminate]. injection H as <-. cbn. rewrite (IHl cr eq_refl). reflexivity. }
    rewrite app_length, (G _ _ Ei), rev_length, Es, app_length. cbn. lia. }
  split.
  - rewrite map_app, Hnames_l, Hnames_n. reflexivity.
  - rewrite map_app, Hres_l, Hres_n, Hclen. replace (2 * List.length s)%nat with (List.length s + List.length s)%nat by lia.
    rewrite seq_app, map_app. apply f_equal2.
    + apply map_ext. intros j. lia.
    + replace (0 + List.length s)%nat with (List.length s + 0)%nat by lia. rewrite <- (seq_shift_n_local (List.length s) 0%nat), map_map.
      apply map_ext. intros j. subst n. lia.
Qed.

(* ---- instance 1: the linear strand the sequence readers build ---- *)
Lemma nth_strand (s : list string) k : 0 <= k < Z.of_nat (List.length s) -> exists x, nth_error s (Z.to_nat (k - 0)) = Some x.
Proof. intros H. destruct (nth_error s (Z.to_nat (k - 0))) as [x|] eqn:E; [eauto|]. apply nth_error_None in E. lia. Qed.

Theorem complement_linear s comps : s <> [] -> comp_strand table s = Some comps ->
  exists g', complement table (linear s) = Ok g' /\ map n_name (g_nodes g') = (s ++ comps)%list /\
             map n_resid (g_nodes g') = map (fun k => Z.of_nat k + 1) (seq 0 (2 * List.length s)).
Proof.
  intros Hne Hc. unfold linear. apply (complement_strand s _ comps Hne Hc).
  - intros extra k Hk. rewrite adj_linear by lia. replace (0 <? k) with true by (symmetry; apply Z.ltb_lt; lia). cbn [app scan].
    destruct (nth_strand s (k - 1) ltac:(lia)) as (x & Hx). rewrite (find_linear s 0 extra (k - 1) x Hx ltac:(lia)). cbn [n_resid].
    replace (k + 1 - (k - 1 + 1) =? 1) with true by (symmetry; apply Z.eqb_eq; lia). reflexivity.
  - intros extra. rewrite adj_linear by (destruct s; [contradiction|cbn [List.length]; lia]). cbn [Z.ltb Z.compare app].
    destruct (Z.ltb_spec (0 + 1) (Z.of_nat (List.length s))) as [Hn2 | Hn2]; cbn [scan]; [|left; reflexivity].
    destruct s as [|x0 [|x1 srest]]; [contradiction|cbn [List.length] in Hn2; lia|].
    rewrite (find_linear (x0 :: x1 :: srest) 0 extra (0 + 1) x1 eq_refl ltac:(lia)). cbn [n_resid].
    replace (1 - (0 + 1 + 1) =? 1) with false by reflexivity. replace (0 + 1 + 1 >? 1) with true by reflexivity. cbn [andb].
    destruct (Z.eqb_spec (0 + 1) (Z.of_nat (List.length (x0 :: x1 :: srest)) - 1)) as [E | E]; cbn [scan]; [|left; reflexivity].
    right. exists (0 + 1). split; [cbn [List.length] in *; lia|reflexivity].
Qed.

(* ---- instance 2: a circular strand (parse_ig, then the MetaMolecule copy) ---- *)
Theorem complement_circular s comps : (3 <= List.length s)%nat -> comp_strand table s = Some comps ->
  exists g', complement table (circular s) = Ok g' /\ map n_name (g_nodes g') = (s ++ comps)%list /\
             map n_resid (g_nodes g') = map (fun k => Z.of_nat k + 1) (seq 0 (2 * List.length s)).
Proof.
  intros H3 Hc. assert (Hne : s <> []) by (destruct s; [cbn in H3; lia|discriminate]). unfold circular.
  set (n := Z.of_nat (List.length s)). assert (Hn3 : 3 <= n) by (subst n; lia).
  apply (complement_strand s _ comps Hne Hc); fold n.
  - intros extra k Hk. rewrite adj_circular by lia. replace (0 <? k) with true by (symmetry; apply Z.ltb_lt; lia). rewrite andb_true_r.
    destruct (nth_strand s (k - 1) ltac:(lia)) as (x & Hx).
    destruct (Z.eqb_spec k (n - 1)) as [Ek | Ek]; cbn [app scan].
    + (* the last residue lists residue 0 first: not the predecessor, not a ring closure seen from here *)
      destruct (nth_strand s 0 ltac:(lia)) as (x0 & Hx0). rewrite (find_linear s 0 extra 0 x0 Hx0 ltac:(lia)). cbn [n_resid].
      replace (k + 1 - (0 + 1) =? 1) with false by (symmetry; apply Z.eqb_neq; lia).
      replace (0 + 1 >? k + 1) with false by (rewrite Z.gtb_ltb; symmetry; apply Z.ltb_ge; lia). cbn [andb].
      rewrite (find_linear s 0 extra (k - 1) x Hx ltac:(lia)). cbn [n_resid].
      replace (k + 1 - (k - 1 + 1) =? 1) with true by (symmetry; apply Z.eqb_eq; lia). reflexivity.
    + rewrite (find_linear s 0 extra (k - 1) x Hx ltac:(lia)). cbn [n_resid].
      replace (k + 1 - (k - 1 + 1) =? 1) with true by (symmetry; apply Z.eqb_eq; lia). reflexivity.
  - intros extra. rewrite adj_circular by lia. replace (0 =? n - 1) with false by (symmetry; apply Z.eqb_neq; lia). cbn [andb Z.ltb Z.compare app].
    replace (0 + 1 <? n) with true by (symmetry; apply Z.ltb_lt; lia). cbn [app Z.eqb scan].
    destruct (nth_strand s 1 ltac:(lia)) as (x1 & Hx1). rewrite (find_linear s 0 extra (0 + 1) x1 Hx1 ltac:(lia)). cbn [n_resid].
    replace (1 - (0 + 1 + 1) =? 1) with false by reflexivity. replace (0 + 1 + 1 >? 1) with true by reflexivity. cbn [andb].
    replace (0 + 1 =? n - 1) with false by (symmetry; apply Z.eqb_neq; lia). cbn [scan].
    destruct (nth_strand s (n - 1) ltac:(lia)) as (xl & Hxl). rewrite (find_linear s 0 extra (n - 1) xl Hxl ltac:(lia)). cbn [n_resid].
    replace (1 - (n - 1 + 1) =? 1) with false by (symmetry; apply Z.eqb_neq; lia).
    replace (n - 1 + 1 >? 1) with true by (symmetry; apply Z.gtb_lt; lia). rewrite Z.eqb_refl. cbn [andb].
    right. exists (n - 1). split; [lia|reflexivity].
Qed.
End Linear.
