(* C11, second half: the residue graph recovered from the re-read file.  from_itp /
   TOPDirector.finalize rebuild molecule edges from [bonds] and [constraints] only
   (_make_edges) and contract them per residue id (make_residue_graph). *)
From Coq Require Import List Arith Bool Lia.
Import ListNotations.

Section RG.
Variable resid : nat -> nat.                      (* atom -> residue id *)

Definition res_edges (pairs : list (nat * nat)) : list (nat * nat) :=
  filter (fun p => negb (fst p =? snd p)) (map (fun b => (resid (fst b), resid (snd b))) pairs).
Definition adj (E : list (nat * nat)) (u v : nat) : Prop := In (u, v) E \/ In (v, u) E.
Definition same_graph (E1 E2 : list (nat * nat)) : Prop := forall u v, adj E1 u v <-> adj E2 u v.

Lemma res_edges_spec pairs u v :
  In (u, v) (res_edges pairs) <-> u <> v /\ exists a b, In (a, b) pairs /\ resid a = u /\ resid b = v.
Proof.
  unfold res_edges. rewrite filter_In, in_map_iff. cbn [fst snd]. split.
  - intros [((a, b) & E & Hin) Hne]. cbn [fst snd] in E. injection E as E1 E2. split.
    + apply negb_true_iff, Nat.eqb_neq in Hne. exact Hne.
    + exists a, b. repeat split; assumption.
  - intros [Hne (a & b & Hin & E1 & E2)]. split.
    + exists (a, b). cbn [fst snd]. subst. split; [reflexivity|exact Hin].
    + apply negb_true_iff, Nat.eqb_neq. exact Hne.
Qed.

(* bonded = [bonds] ++ [constraints] pairs of the written molecule; req = requested residue edges *)
Theorem recovered_eq_requested req bonded :
  (forall a b, In (a, b) bonded -> resid a = resid b \/ adj req (resid a) (resid b)) ->
  (forall u v, In (u, v) req -> u <> v /\ exists a b, (In (a, b) bonded \/ In (b, a) bonded) /\ resid a = u /\ resid b = v) ->
  same_graph (res_edges bonded) req.
Proof.
  intros Hsub Hcov u v. unfold adj. rewrite !res_edges_spec. split.
  - intros [[Hne (a & b & Hin & E1 & E2)] | [Hne (a & b & Hin & E1 & E2)]]; destruct (Hsub a b Hin) as [Heq | Hadj]; subst.
    + congruence.
    + exact Hadj.
    + congruence.
    + unfold adj in Hadj. tauto.
  - intros [Hin | Hin]; destruct (Hcov _ _ Hin) as [Hne (a & b & [Hb | Hb] & E1 & E2)]; subst.
    + left. split; [exact Hne|]. exists a, b. auto.
    + right. split; [congruence|]. exists b, a. auto.
    + right. split; [exact Hne|]. exists a, b. auto.
    + left. split; [congruence|]. exists b, a. auto.
Qed.
End RG.

(* "no link is missing" is decided on the edges of the built molecule (find_missing_edges),
   which links may also add through [ edges ] or an angle: that is not enough for the recovered
   graph to have the edge *)
Lemma no_missing_not_sufficient_refuted :
  exists (resid : nat -> nat) (req mol_edges bonded : list (nat * nat)),
    (forall u v, In (u, v) req -> exists a b, In (a, b) mol_edges /\ resid a = u /\ resid b = v) /\
    ~ same_graph (res_edges resid bonded) req.
Proof.
  exists (fun a => a), [(0, 1)], [(0, 1)], []. split.
  - intros u v [E | []]. injection E as <- <-. exists 0, 1. cbn. auto.
  - intros H. destruct (H 0 1) as [_ H2]. destruct H2 as [[] | []]. left. left. reflexivity.
Qed.

Example ex_recovered :
  same_graph (res_edges (fun a => a / 2) [(0, 1); (1, 2); (2, 3); (3, 4)]) [(0, 1); (1, 2)].
Proof.
  apply recovered_eq_requested.
  - intros a b Hin. cbn in Hin. unfold adj. cbn.
    repeat (destruct Hin as [E | Hin]; [injection E as <- <-; cbn; auto 10|]). destruct Hin.
  - intros u v Hin. cbn in Hin. repeat (destruct Hin as [E | Hin]; [injection E as <- <-|]); [| |destruct Hin].
    + split; [discriminate|]. exists 1, 2. cbn. auto.
    + split; [discriminate|]. exists 3, 4. cbn. auto 10.
Qed.
