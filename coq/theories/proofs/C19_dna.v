(* C19: lemmas about the dsDNA completion model (model/Dna.v) and the regenerated pairing
   table (gen/Gen_dna.v). *)
From Coq Require Import ZArith String List Bool Lia Ascii.
From PV Require Import ListX Dna Gen_dna.
Import ListNotations.
Open Scope Z_scope.

(* ------------------------------------------------------------------ the table (tie T) *)
Definition table_involutive (t : list (string * string)) : bool :=
  forallb (fun kv => match tlookup t (snd kv) with
                     | Some k => String.eqb k (fst kv)
                     | None => false end) t.

(* terminal role: 5, 3 or 0 (internal), read off the last character; base letter = 2nd char *)
Fixpoint last_ascii (s : string) (d : ascii) : ascii :=
  match s with EmptyString => d | String c r => last_ascii r c end.
Definition term_of (s : string) : Z :=
  let c := last_ascii s "0"%char in
  if Ascii.eqb c "5"%char then 5 else if Ascii.eqb c "3"%char then 3 else 0.
Definition swap_term (z : Z) : Z := if z =? 5 then 3 else if z =? 3 then 5 else 0.
Definition base_of (s : string) : ascii :=
  match s with String _ (String b _) => b | _ => "?"%char end.
Definition wc (a b : ascii) : bool :=
  (Ascii.eqb a "A" && Ascii.eqb b "T") || (Ascii.eqb a "T" && Ascii.eqb b "A") ||
  (Ascii.eqb a "G" && Ascii.eqb b "C") || (Ascii.eqb a "C" && Ascii.eqb b "G").
Definition table_watson_crick (t : list (string * string)) : bool :=
  forallb (fun kv => wc (base_of (fst kv)) (base_of (snd kv)) &&
                     (term_of (snd kv) =? swap_term (term_of (fst kv)))) t.
Fixpoint keys_distinct (t : list (string * string)) : bool :=
  match t with
  | [] => true
  | (k, _) :: r => negb (existsb (fun kv => String.eqb (fst kv) k) r) && keys_distinct r
  end.

(* gen-dependent side conditions: evaluated on the table as the source defines it now *)
Lemma gen_table_involutive : table_involutive BASE_LIBRARY = true.
Proof. vm_compute. reflexivity. Qed.
Lemma gen_table_watson_crick : table_watson_crick BASE_LIBRARY = true.
Proof. vm_compute. reflexivity. Qed.
Lemma gen_table_keys_distinct : keys_distinct BASE_LIBRARY = true.
Proof. vm_compute. reflexivity. Qed.
Lemma gen_table_size : List.length BASE_LIBRARY = 12%nat.
Proof. vm_compute. reflexivity. Qed.

Lemma tlookup_in t k v : tlookup t k = Some v -> In (k, v) t.
Proof.
  induction t as [|[a b] r IH]; cbn [tlookup]; [discriminate|].
  destruct (String.eqb a k) eqn:E; intros H.
  - apply String.eqb_eq in E. injection H as <-. subst. left; reflexivity.
  - right; auto.
Qed.

Lemma involutive_lookup t k v :
  table_involutive t = true -> tlookup t k = Some v -> tlookup t v = Some k.
Proof.
  intros Ht Hl. apply tlookup_in in Hl. unfold table_involutive in Ht.
  rewrite forallb_forall in Ht. specialize (Ht _ Hl). cbn [fst snd] in Ht.
  destruct (tlookup t v) as [k'|]; [|discriminate]. apply String.eqb_eq in Ht. subst. reflexivity.
Qed.

Lemma watson_crick_lookup t k v :
  table_watson_crick t = true -> tlookup t k = Some v ->
  wc (base_of k) (base_of v) = true /\ term_of v = swap_term (term_of k).
Proof.
  intros Ht Hl. apply tlookup_in in Hl. unfold table_watson_crick in Ht.
  rewrite forallb_forall in Ht. specialize (Ht _ Hl). cbn [fst snd] in Ht.
  apply andb_true_iff in Ht. destruct Ht as [H1 H2]. split; [exact H1|]. apply Z.eqb_eq; exact H2.
Qed.

(* ------------------------------------------------------------------ the name-level spec *)
(* ---- the keys of the added residues continue after the highest key in use ---- *)
Lemma fold_max_bounded l k : Forall (fun x => x <= k) l -> fold_left Z.max l k = k.
Proof. induction 1 as [|x r Hx _ IH]; cbn [fold_left]; [reflexivity|]. rewrite Z.max_l by lia. exact IH. Qed.

Lemma kmax_bounded g k : Forall (fun n => n_key n <= k) (g_nodes g) -> kmax g k = k.
Proof.
  intros H. unfold kmax. apply fold_max_bounded. apply Forall_forall. intros x Hx. apply in_map_iff in Hx.
  destruct Hx as (n & <- & Hn). rewrite Forall_forall in H. exact (H n Hn).
Qed.

Lemma fold_max_ge l : forall k, k <= fold_left Z.max l k /\ Forall (fun x => x <= fold_left Z.max l k) l.
Proof.
  induction l as [|x r IH]; intros k; cbn [fold_left]; [split; [lia|constructor]|].
  destruct (IH (Z.max k x)) as [H1 H2]. split; [lia|]. constructor; [lia|exact H2].
Qed.

(* whatever the keys of the strand: the first key handed out (kmax + 1) is above every key in use, nothing is overwritten *)
Lemma kmax_fresh g k : Forall (fun n => n_key n < kmax g k + 1) (g_nodes g) /\ k < kmax g k + 1.
Proof.
  unfold kmax. destruct (fold_max_ge (map n_key (g_nodes g)) k) as [H1 H2]. split; [|lia].
  rewrite Forall_forall in H2. apply Forall_forall. intros n Hn.
  specialize (H2 (n_key n) (in_map n_key _ _ Hn)). cbn beta in H2. lia.
Qed.

Section SpecLemmas.
  Variable t : list (string * string).

  Lemma comp_all_spec s s' :
    comp_all t s = Some s' <-> Forall2 (fun x y => tlookup t x = Some y) s s'.
  Proof.
    revert s'; induction s as [|x r IH]; intros s'; cbn [comp_all].
    - split; intros H; [injection H as <-; constructor|inversion H; reflexivity].
    - destruct (tlookup t x) as [y|] eqn:E.
      + destruct (comp_all t r) as [ys|] eqn:E2.
        * split; intros H.
          -- injection H as <-. constructor; [exact E|]. apply IH. reflexivity.
          -- inversion H as [|? y' ? ys' Hy Hys]; subst. rewrite E in Hy. injection Hy as <-.
             apply IH in Hys. injection Hys as <-. reflexivity.
        * split; intros H; [discriminate|]. inversion H as [|? y' ? ys' Hy Hys]; subst.
          apply IH in Hys. discriminate.
      + split; intros H; [discriminate|]. inversion H as [|? y' ? ys' Hy Hys]; subst. congruence.
  Qed.

  Lemma comp_strand_length s s' : comp_strand t s = Some s' -> List.length s' = List.length s.
  Proof.
    unfold comp_strand. intros H. apply comp_all_spec in H.
    apply Forall2_length in H. rewrite rev_length in H. symmetry; exact H.
  Qed.

  Lemma comp_strand_2n s s' : comp_strand t s = Some s' -> List.length (s ++ s') = (2 * List.length s)%nat.
  Proof. intros H. rewrite app_length, (comp_strand_length _ _ H). lia. Qed.

  (* residue n+k is the complement of residue n+1-k (0-based: s'[j] pairs with s[n-1-j]) *)
  Lemma comp_strand_antiparallel s s' j x :
    comp_strand t s = Some s' -> nth_error s' j = Some x ->
    exists y, nth_error s (List.length s - 1 - j)%nat = Some y /\ tlookup t y = Some x.
  Proof.
    unfold comp_strand. intros H Hj. apply comp_all_spec in H.
    destruct (Forall2_nth_error _ _ _ _ _ H Hj) as (y & Hy & Hxy).
    exists y. split; [apply nth_error_rev; exact Hy|exact Hxy].
  Qed.

  (* complementing the added strand again recovers the original sequence *)
  Lemma double_complement s s' :
    table_involutive t = true -> comp_strand t s = Some s' -> comp_strand t s' = Some s.
  Proof.
    unfold comp_strand. intros Ht H. apply comp_all_spec in H. apply comp_all_spec.
    apply Forall2_rev_ in H. rewrite rev_involutive in H.
    clear - Ht H. induction H as [|x y l l' Hxy _ IH]; constructor; [|exact IH].
    apply involutive_lookup; assumption.
  Qed.

  Lemma comp_strand_unknown s x :
    In x s -> tlookup t x = None -> comp_strand t s = None.
  Proof.
    unfold comp_strand. intros Hin Hx. destruct (comp_all t (rev s)) as [s'|] eqn:E; [|reflexivity].
    apply comp_all_spec in E. exfalso. apply in_rev in Hin.
    clear - E Hin Hx. induction E as [|a b l l' Hab _ IH]; [destruct Hin|].
    destruct Hin as [->|Hin]; [congruence|auto].
  Qed.
End SpecLemmas.

(* ------------------------------------------------------------------ the algorithmic model *)
Section Alg.
  Variable t : list (string * string).

  (* rejection of unknown residue names *)
  Lemma complement_unknown_last g ln :
    last (map Some (g_nodes g)) None = Some ln -> tlookup t (n_name ln) = None ->
    complement t g = Err ErrKey.
  Proof. intros H1 H2. unfold complement. rewrite H1, H2. reflexivity. Qed.

  Lemma body_unknown s prev next nn :
    find_node (g_nodes (s_g s)) next = Some nn -> tlookup t (n_name nn) = None ->
    body t s prev next = Err ErrIO.
  Proof. intros H1 H2. unfold body. rewrite H1, H2. reflexivity. Qed.

  (* ---- frame: the original strand is left unchanged ---- *)
  Lemma adj_of_update_other a u f w : w <> u -> adj_of (adj_update a u f) w = adj_of a w.
  Proof.
    intros Hne. induction a as [|[x l] r IH]; cbn [adj_update adj_of]; [reflexivity|].
    destruct (x =? u) eqn:E; cbn [adj_of].
    - apply Z.eqb_eq in E. subst. destruct (u =? w) eqn:E2; [apply Z.eqb_eq in E2; congruence|reflexivity].
    - destruct (x =? w); [reflexivity|exact IH].
  Qed.

  Lemma adj_of_app_other a k w : w <> k -> adj_of (a ++ [(k, [])]) w = adj_of a w.
  Proof.
    intros Hne. induction a as [|[x l] r IH]; cbn [app adj_of].
    - destruct (k =? w) eqn:E; [apply Z.eqb_eq in E; congruence|reflexivity].
    - destruct (x =? w); [reflexivity|exact IH].
  Qed.

  Lemma set_node_fresh ns n : Forall (fun m => n_key m <> n_key n) ns -> set_node ns n = ns ++ [n].
  Proof.
    induction 1 as [|m r Hm _ IH]; cbn [set_node app]; [reflexivity|].
    destruct (n_key m =? n_key n) eqn:E; [apply Z.eqb_eq in E; contradiction|]. rewrite IH. reflexivity.
  Qed.

  Definition Frame (g0 : mg) (k : Z) (s : st) : Prop :=
    (exists extra, g_nodes (s_g s) = g_nodes g0 ++ extra /\
                   Forall (fun n => k < n_key n <= s_total s) extra) /\
    (forall w, w <= k -> adj_of (g_adj (s_g s)) w = adj_of (g_adj g0) w) /\
    (forall a b, In (a, b) (s_corr s) -> k < b <= s_total s) /\
    k < s_total s.

  Lemma corr_get_in c a b : corr_get c a = Some b -> In (a, b) c.
  Proof.
    induction c as [|[x y] r IH]; cbn [corr_get]; [discriminate|].
    destruct (x =? a) eqn:E; intros H.
    - apply Z.eqb_eq in E. injection H as <-. subst. left; reflexivity.
    - right; auto.
  Qed.

  Lemma fold_set_attr_nodes l g u v :
    g_nodes (fold_left (fun gg kv => set_edge_attr gg u v (fst kv) (snd kv)) l g) = g_nodes g.
  Proof. revert g; induction l as [|x r IH]; intros g; cbn [fold_left]; [reflexivity|]. rewrite IH. reflexivity. Qed.

  Lemma fold_set_attr_adj l g u v w : w <> u -> w <> v ->
    adj_of (g_adj (fold_left (fun gg kv => set_edge_attr gg u v (fst kv) (snd kv)) l g)) w = adj_of (g_adj g) w.
  Proof.
    intros Hu Hv. revert g; induction l as [|x r IH]; intros g; cbn [fold_left]; [reflexivity|].
    rewrite IH. unfold set_edge_attr; cbn [g_adj]. rewrite !adj_of_update_other by assumption. reflexivity.
  Qed.

  Lemma body_frame g0 k s prev next s' :
    Forall (fun n => n_key n <= k) (g_nodes g0) ->
    Frame g0 k s -> body t s prev next = Ok s' -> Frame g0 k s'.
  Proof.
    intros Hb (Hn & Ha & Hc & Ht) H. unfold body in H.
    destruct (find_node (g_nodes (s_g s)) next) as [nn|]; [|discriminate].
    destruct (tlookup t (n_name nn)) as [cname|]; [|discriminate].
    destruct (corr_get (s_corr s) prev) as [cprev|] eqn:Ep; [|discriminate].
    apply corr_get_in in Ep. pose proof (Hc _ _ Ep) as Hcp.
    destruct Hn as (extra & Hn & Hex).
    destruct (corr_get (s_corr s) next) as [new|] eqn:En.
    - apply corr_get_in in En. pose proof (Hc _ _ En) as Hnew.
      injection H as <-. unfold Frame; cbn [s_g s_corr s_total].
      split; [|split; [|split]].
      + exists extra. rewrite fold_set_attr_nodes. cbn [add_edge g_nodes]. split; [exact Hn|].
        eapply Forall_impl; [|exact Hex]. cbn. intros; lia.
      + intros w Hw. rewrite fold_set_attr_adj by lia. unfold add_edge; cbn [g_adj].
        rewrite !adj_of_update_other by lia. apply Ha; exact Hw.
      + intros a b Hab. specialize (Hc _ _ Hab). lia.
      + lia.
    - injection H as <-. unfold Frame; cbn [s_g s_corr s_total].
      set (new := s_total s + 1).
      split; [|split; [|split]].
      + exists (extra ++ [{| n_key := new; n_resid := g_maxres (s_g s) + 1; n_name := cname |}]).
        rewrite fold_set_attr_nodes. cbn [add_edge add_node g_nodes]. split.
        * rewrite set_node_fresh.
          -- rewrite Hn, app_assoc. reflexivity.
          -- rewrite Hn. apply Forall_app. split.
             ++ eapply Forall_impl; [|exact Hb]. cbn. intros a Ha'. subst new. lia.
             ++ eapply Forall_impl; [|exact Hex]. cbn. intros a Ha'. subst new. lia.
        * apply Forall_app. split.
          -- eapply Forall_impl; [|exact Hex]. cbn. intros; lia.
          -- constructor; [cbn; subst new; lia|constructor].
      + intros w Hw. rewrite fold_set_attr_adj by (subst new; lia). unfold add_edge, add_node; cbn [g_adj].
        rewrite !adj_of_update_other by (subst new; lia).
        destruct (has_adj (g_adj (s_g s)) new).
        * apply Ha; exact Hw.
        * rewrite adj_of_app_other by (subst new; lia). apply Ha; exact Hw.
      + intros a b Hab. apply in_app_iff in Hab. destruct Hab as [Hab|[Hab|[]]].
        * specialize (Hc _ _ Hab). lia.
        * injection Hab as <- <-. subst new. lia.
      + lia.
  Qed.

  Lemma loop_frame g0 k fuel : forall s src first s',
    Forall (fun n => n_key n <= k) (g_nodes g0) ->
    Frame g0 k s -> loop t fuel s src first = Ok s' -> Frame g0 k s'.
  Proof.
    induction fuel as [|f IH]; intros s src first s' Hb HF H; cbn [loop] in H; [discriminate|].
    destruct (find_node (g_nodes (s_g s)) src) as [sn|]; [|discriminate].
    destruct (scan (g_nodes (s_g s)) (n_resid sn) first (adj_of (g_adj (s_g s)) src)) as [[nb stop]|].
    - destruct (body t s src nb) as [s1|e] eqn:Eb; [|discriminate].
      pose proof (body_frame _ _ _ _ _ _ Hb HF Eb) as HF1.
      destruct stop.
      + injection H as <-. exact HF1.
      + eapply IH; eassumption.
    - injection H as <-. exact HF.
  Qed.

  (* the completed molecule starts with the original strand: same nodes (keys, resids,
     names) in the same order, every original node keeps its neighbour list and edge labels,
     and all added residues have larger keys -- so no edge joins the two strands *)
  Theorem complement_frame g g' ln :
    last (map Some (g_nodes g)) None = Some ln ->
    Forall (fun n => n_key n <= n_key ln) (g_nodes g) ->
    complement t g = Ok g' ->
    (exists extra, g_nodes g' = g_nodes g ++ extra /\ Forall (fun n => n_key ln < n_key n) extra) /\
    (forall w, w <= n_key ln -> adj_of (g_adj g') w = adj_of (g_adj g) w).
  Proof.
    intros Hl Hb H. unfold complement in H. rewrite Hl in H. cbv zeta in H. rewrite (kmax_bounded g (n_key ln) Hb) in H.
    destruct (tlookup t (n_name ln)) as [cname|]; [|discriminate].
    set (k := n_key ln) in *.
    destruct (loop t _ _ k k) as [s|e] eqn:El; [|discriminate]. injection H as <-.
    assert (HF0 : Frame g k {| s_g := add_node g (k + 1) cname; s_corr := [(k, k + 1)]; s_total := k + 1 |}).
    { unfold Frame; cbn [s_g s_corr s_total add_node g_nodes g_adj].
      split; [|split; [|split]].
      - exists [{| n_key := k + 1; n_resid := g_maxres g + 1; n_name := cname |}]. split.
        + apply set_node_fresh. eapply Forall_impl; [|exact Hb]. cbn. intros; lia.
        + constructor; [cbn; lia|constructor].
      - intros w Hw. destruct (has_adj (g_adj g) (k + 1)); [reflexivity|].
        apply adj_of_app_other. lia.
      - intros a b [Hab|[]]. injection Hab as <- <-. lia.
      - lia. }
    pose proof (loop_frame _ _ _ _ _ _ _ Hb HF0 El) as ((extra & Hn & Hex) & Ha & _ & _).
    split.
    - exists extra. split; [exact Hn|]. eapply Forall_impl; [|exact Hex]. cbn. intros; lia.
    - exact Ha.
  Qed.
End Alg.

(* ---- non-vacuity and concrete instances on the regenerated table ---- *)
Example ex_linear3 :
  match complement BASE_LIBRARY (linear ["DA5"; "DG"; "DC3"]%string) with
  | Ok g' => map n_name (g_nodes g') = ["DA5"; "DG"; "DC3"; "DG5"; "DC"; "DT3"]%string /\
             map n_resid (g_nodes g') = [1; 2; 3; 4; 5; 6] /\
             map fst (adj_of (g_adj g') 4) = [3; 5]
  | Err _ => False
  end.
Proof. vm_compute. repeat split. Qed.

Example ex_spec3 : comp_strand BASE_LIBRARY ["DA5"; "DG"; "DC3"]%string = Some ["DG5"; "DC"; "DT3"]%string.
Proof. vm_compute. reflexivity. Qed.
