(* C10: a missing-link record is produced for a residue-graph edge exactly when no atom-level
   edge joins the two residues. *)
From Coq Require Import ZArith List Bool Arith Lia.
From PV Require Import Graph Missing.
Import ListNotations.
Open Scope Z_scope.

Lemma has_edge_spec g a b : has_edge g a b = true <-> adjacent g a b.
Proof.
  unfold has_edge. rewrite existsb_exists. split.
  - intros (x & Hx & E). apply Z.eqb_eq in E. subst. apply neighbors_spec. exact Hx.
  - intros H. exists b. split; [apply neighbors_spec; exact H|apply Z.eqb_refl].
Qed.

Lemma degree_lt sub g a v :
  (forall x, adjacent sub a x -> adjacent g a x) -> adjacent g a v -> ~ adjacent sub a v ->
  (degree sub a < degree g a)%nat.
Proof.
  intros Hsub Hv Hnv. unfold degree.
  set (l1 := nodup Z.eq_dec (neighbors sub a)). set (l2 := nodup Z.eq_dec (neighbors g a)).
  assert (N1 : NoDup l1) by apply NoDup_nodup. assert (N2 : NoDup l2) by apply NoDup_nodup.
  assert (Hincl : incl (v :: l1) l2).
  { intros x [<-|Hx].
    - apply nodup_In, neighbors_spec. exact Hv.
    - apply nodup_In, neighbors_spec. apply Hsub. apply neighbors_spec. eapply nodup_In. exact Hx. }
  assert (Nv : NoDup (v :: l1)).
  { constructor; [|exact N1]. intros Hin. apply Hnv. apply neighbors_spec. eapply nodup_In. exact Hin. }
  pose proof (NoDup_incl_length Nv Hincl) as H. cbn [length] in H. lia.
Qed.

(* the invariant kept by add_blocks and by the regrouping after atom removal: the fragment
   graph of a residue holds the residue's atoms and only molecule edges between them *)
Definition ResGraphInv (mol : graph) (r : residue) : Prop :=
  forall a b, adjacent (r_edges r) a b -> adjacent mol a b /\ In a (r_nodes r) /\ In b (r_nodes r).

Lemma allowed_of_crossing mol r u v :
  ResGraphInv mol r -> In u (r_nodes r) -> ~ In v (r_nodes r) -> adjacent mol u v -> In u (allowed mol r).
Proof.
  intros Inv Hu Hv Hadj. unfold allowed. apply filter_In. split; [exact Hu|].
  apply negb_true_iff, Nat.eqb_neq.
  assert (degree (r_edges r) u < degree mol u)%nat; [|lia].
  apply (degree_lt (r_edges r) mol u v).
  - intros x Hx. apply (Inv u x Hx).
  - exact Hadj.
  - intros Hx. apply Hv. apply (Inv u v Hx).
Qed.

Theorem connecting_spec mol ra rb :
  ResGraphInv mol ra -> ResGraphInv mol rb ->
  (forall x, In x (r_nodes ra) -> ~ In x (r_nodes rb)) ->
  (connecting mol ra rb = [] <->
   forall u v, In u (r_nodes ra) -> In v (r_nodes rb) -> ~ adjacent mol u v).
Proof.
  intros Ia Ib Hdisj. split.
  - intros Hnil u v Hu Hv Hadj.
    assert (Hin : In (u, v) (connecting mol ra rb)); [|rewrite Hnil in Hin; exact Hin].
    unfold connecting. apply in_flat_map. exists u. split.
    + apply (allowed_of_crossing mol ra u v Ia Hu); [intros H; apply (Hdisj v)|exact Hadj].
      * exact H.
      * exact Hv.
    + apply in_map. apply filter_In. split; [|apply has_edge_spec; exact Hadj].
      apply (allowed_of_crossing mol rb v u Ib Hv); [intros H; exact (Hdisj u Hu H)|].
      destruct Hadj; [right|left]; assumption.
  - intros H. unfold connecting.
    destruct (flat_map _ (allowed mol ra)) as [|[u v] rest] eqn:E; [reflexivity|]. exfalso.
    assert (Hin : In (u, v) (flat_map (fun u => map (fun v => (u, v)) (filter (has_edge mol u) (allowed mol rb))) (allowed mol ra)))
      by (rewrite E; left; reflexivity).
    apply in_flat_map in Hin. destruct Hin as (u' & Hu' & Hin). apply in_map_iff in Hin. destruct Hin as (v' & Euv & Hv').
    injection Euv as <- <-. apply filter_In in Hv'. destruct Hv' as [Hv' He].
    apply filter_In in Hu'. apply filter_In in Hv'. apply has_edge_spec in He.
    apply (H u' v'); tauto.
Qed.

(* never both, never neither *)
Theorem missing_iff_no_atom_edge mol rs res_edges ea eb ra rb :
  find_res rs ea = Some ra -> find_res rs eb = Some rb ->
  ResGraphInv mol ra -> ResGraphInv mol rb -> (forall x, In x (r_nodes ra) -> ~ In x (r_nodes rb)) ->
  In (ea, eb) res_edges ->
  (In (ea, eb) (missing mol rs res_edges) <->
   forall u v, In u (r_nodes ra) -> In v (r_nodes rb) -> ~ adjacent mol u v).
Proof.
  intros Ha Hb Ia Ib Hd Hin. unfold missing. rewrite filter_In. cbn [fst snd]. rewrite Ha, Hb.
  rewrite <- (connecting_spec mol ra rb Ia Ib Hd). split.
  - intros [_ H]. destruct (connecting mol ra rb); [reflexivity|discriminate].
  - intros ->. split; [exact Hin|reflexivity].
Qed.

(* every residue-graph edge is realised by a bond or reported, never both (with the bond exhibited) *)
Theorem realised_or_reported mol rs res_edges ea eb ra rb :
  find_res rs ea = Some ra -> find_res rs eb = Some rb ->
  ResGraphInv mol ra -> ResGraphInv mol rb -> (forall x, In x (r_nodes ra) -> ~ In x (r_nodes rb)) ->
  In (ea, eb) res_edges ->
  ((exists u v, In u (r_nodes ra) /\ In v (r_nodes rb) /\ adjacent mol u v) /\ ~ In (ea, eb) (missing mol rs res_edges)) \/
  (In (ea, eb) (missing mol rs res_edges) /\ forall u v, In u (r_nodes ra) -> In v (r_nodes rb) -> ~ adjacent mol u v).
Proof.
  intros Ha Hb Ia Ib Hd Hin.
  pose proof (missing_iff_no_atom_edge mol rs res_edges ea eb ra rb Ha Hb Ia Ib Hd Hin) as Hiff.
  destruct (connecting mol ra rb) as [|[u v] rest] eqn:E.
  - right. assert (Hno : forall u v, In u (r_nodes ra) -> In v (r_nodes rb) -> ~ adjacent mol u v)
      by (apply (connecting_spec mol ra rb Ia Ib Hd); exact E).
    split; [apply Hiff; exact Hno|exact Hno].
  - left. assert (Hin' : In (u, v) (connecting mol ra rb)) by (rewrite E; left; reflexivity).
    unfold connecting in Hin'. apply in_flat_map in Hin'. destruct Hin' as (u' & Hu' & Hin').
    apply in_map_iff in Hin'. destruct Hin' as (v' & Euv & Hv'). injection Euv as <- <-.
    apply filter_In in Hv'. destruct Hv' as [Hv' He]. apply filter_In in Hu'. apply filter_In in Hv'.
    apply has_edge_spec in He. split.
    + exists u', v'. tauto.
    + intros Hm. destruct Hiff as [Hfw _]. apply (Hfw Hm u' v'); tauto.
Qed.

Lemma filter_len {A} (f : A -> bool) (l : list A) : (List.length (filter f l) <= List.length l)%nat.
Proof. induction l as [|a r IH]; cbn [filter List.length]; [lia|]. destruct (f a); cbn [List.length]; lia. Qed.

(* the records follow the residue-graph edges: a sub-sequence in edge order, one per edge *)
Theorem missing_shape mol rs res_edges :
  (forall e, In e (missing mol rs res_edges) -> In e res_edges) /\
  (NoDup res_edges -> NoDup (missing mol rs res_edges)) /\
  (List.length (missing mol rs res_edges) <= List.length res_edges)%nat /\
  (forall a b, missing mol rs (a ++ b) = missing mol rs a ++ missing mol rs b)%list.
Proof.
  unfold missing. repeat split.
  - intros e He. apply filter_In in He. tauto.
  - intros Hn. apply NoDup_filter. exact Hn.
  - apply filter_len.
  - intros a b. apply filter_app.
Qed.

Example ex_missing :
  let rs := [{| r_key := 0; r_nodes := [0; 1]; r_edges := [(0, 1)] |}; {| r_key := 1; r_nodes := [2]; r_edges := [] |};
             {| r_key := 2; r_nodes := [3]; r_edges := [] |}] in
  missing [(0, 1); (1, 2)] rs [(0, 1); (1, 2)] = [(1, 2)].
Proof. vm_compute. reflexivity. Qed.
