(* C17: invariants of the placement loop with rewind (model/Walk.v), for every oracle stream. *)
From Coq Require Import Arith ZArith List Bool Lia.
From PV Require Import Walk.
Import ListNotations.

Section Proofs.
  Variable path : list (Z * Z).
  Variable build : Z -> bool.
  Variable nrewind maxiter : nat.
  Variable root : Z.
  Variable pre : list Z.               (* residues of this molecule positioned before the walk *)
  Variable pos0 : list Z.              (* positioned when the loop starts: pre, plus the root *)

  Hypothesis Hnr : 1 <= nrewind.
  Hypothesis Hdistinct : NoDup (map snd path).
  Hypothesis Horder : forall i p c, nth_error path i = Some (p, c) ->
    p = root \/ exists j q, j < i /\ nth_error path j = Some (q, p).
  Hypothesis Hroot_pos : In root pos0.
  Hypothesis Hroot_src : ~ In root (map snd path).
  Hypothesis Hpre_sub : forall n, In n pre -> In n pos0.
  Hypothesis Hpos0 : forall n, In n pos0 -> n = root \/ In n pre.
  Hypothesis Hnobuild : forall n, In n (map snd path) -> build n = false -> In n pre.
  Hypothesis Hbuild : forall n, In n (map snd path) -> build n = true -> ~ In n pre.
  Hypothesis Hnodup0 : NoDup pos0.

  Notation iter := (iter nrewind maxiter).
  Notation loop := (loop path build nrewind maxiter).

  (* ---- python slices ---- *)
  Lemma rewind_char pos placed x :
    nrewind <= length placed ->
    let m := length placed + 1 - nrewind in
    rewind nrewind pos (placed ++ [x]) =
      (remove_nodes (map snd (skipn m placed)) pos, firstn m placed, fst (hd x (skipn m placed))).
  Proof.
    intros Hlen m. unfold rewind, slice_from, drop_last, prefix_to.
    rewrite app_length. cbn [length]. fold m.
    assert (Hm : m <= length placed) by (subst m; lia).
    rewrite skipn_app, firstn_app.
    replace (m - length placed) with 0 by lia. cbn [skipn firstn]. rewrite app_nil_r.
    rewrite removelast_last. f_equal.
    destruct (skipn m placed) as [|[s n] r]; destruct x; reflexivity.
  Qed.

  (* ---- invariant ---- *)
  Definition Cut (placed : list (nat * Z)) : Prop :=
    forall l1 l2, placed = l1 ++ l2 -> forall a b, In a l1 -> In b l2 -> fst a < fst b.

  Record Inv (s : wst) : Prop := {
    i_cut : Cut (w_placed s);
    i_rec : forall j n, In (j, n) (w_placed s) ->
              j < w_step s /\ build n = true /\ exists p, nth_error path j = Some (p, n);
    i_all : forall j p n, j < w_step s -> nth_error path j = Some (p, n) -> build n = true ->
              In (j, n) (w_placed s);
    i_pos : forall n, In n (w_pos s) <-> In n pos0 \/ In n (map snd (w_placed s));
    i_nodup : NoDup (w_pos s)
  }.

  Lemma nth_error_snd i p c : nth_error path i = Some (p, c) -> In c (map snd path).
  Proof. intros H. apply nth_error_In in H. change c with (snd (p, c)). apply in_map. exact H. Qed.

  Lemma target_unique i j p q c :
    nth_error path i = Some (p, c) -> nth_error path j = Some (q, c) -> i = j.
  Proof.
    intros Hi Hj.
    assert (Hi' : nth_error (map snd path) i = Some c) by (rewrite nth_error_map, Hi; reflexivity).
    assert (Hj' : nth_error (map snd path) j = Some c) by (rewrite nth_error_map, Hj; reflexivity).
    rewrite NoDup_nth_error in Hdistinct. apply Hdistinct; [|congruence].
    apply nth_error_Some. congruence.
  Qed.

  Lemma snoc_cases {A} (l1 l2 p : list A) x :
    l1 ++ l2 = p ++ [x] -> (l2 = [] /\ l1 = p ++ [x]) \/ exists l2', l2 = l2' ++ [x] /\ p = l1 ++ l2'.
  Proof.
    intros H. destruct l2 as [|y0 l0] using rev_ind.
    - left. rewrite app_nil_r in H. auto.
    - clear IHl0. right. rewrite app_assoc in H. apply app_inj_tail in H. destruct H as [H ->]. eauto.
  Qed.

  Lemma cut_snoc placed x :
    Cut placed -> (forall a, In a placed -> fst a < fst x) -> Cut (placed ++ [x]).
  Proof.
    intros HC Hx l1 l2 E a b Ha Hb. symmetry in E. apply snoc_cases in E.
    destruct E as [[-> _]|(l2' & -> & ->)]; [destruct Hb|].
    apply in_app_iff in Hb. destruct Hb as [Hb|[<-|[]]].
    - eapply HC; [reflexivity|exact Ha|exact Hb].
    - apply Hx. apply in_app_iff. left; exact Ha.
  Qed.

  Lemma cut_prefix l m : Cut (l ++ m) -> Cut l.
  Proof.
    intros HC l1 l2 -> a b Ha Hb. apply (HC l1 (l2 ++ m)); [rewrite app_assoc; reflexivity|exact Ha|].
    apply in_app_iff; left; exact Hb.
  Qed.

  (* current residue is unpositioned, previous residue is positioned *)
  Lemma cur_unpositioned s p c :
    Inv s -> nth_error path (w_step s) = Some (p, c) -> build c = true -> ~ In c (w_pos s).
  Proof.
    intros I Hn Hb Hin. apply (i_pos s I) in Hin. destruct Hin as [Hin|Hin].
    - apply Hpos0 in Hin. destruct Hin as [->|Hin].
      + apply Hroot_src. eapply nth_error_snd; exact Hn.
      + eapply Hbuild; [eapply nth_error_snd; exact Hn|exact Hb|exact Hin].
    - apply in_map_iff in Hin. destruct Hin as ([j n] & E & Hin). cbn in E; subst n.
      destruct (i_rec s I _ _ Hin) as (Hj & _ & q & Hq).
      pose proof (target_unique _ _ _ _ _ Hq Hn). lia.
  Qed.

  Lemma prev_positioned s p c :
    Inv s -> nth_error path (w_step s) = Some (p, c) -> In p (w_pos s).
  Proof.
    intros I Hn. apply (i_pos s I). destruct (Horder _ _ _ Hn) as [->|(j & q & Hj & Hq)].
    - left; exact Hroot_pos.
    - destruct (build p) eqn:Hb.
      + right. change p with (snd (j, p)). apply in_map. eapply (i_all s I); eassumption.
      + left. apply Hpre_sub. eapply Hnobuild; [eapply nth_error_snd; exact Hq|exact Hb].
  Qed.

  Lemma existsb_In n l : existsb (Z.eqb n) l = true <-> In n l.
  Proof.
    rewrite existsb_exists. split.
    - intros (x & Hx & E). apply Z.eqb_eq in E. subst. exact Hx.
    - intros H. exists n. split; [exact H|apply Z.eqb_refl].
  Qed.

  Lemma remove_nodes_In rm l n : In n (remove_nodes rm l) <-> In n l /\ ~ In n rm.
  Proof.
    unfold remove_nodes. rewrite filter_In, negb_true_iff. split; intros [H1 H2]; split; auto.
    - intros Hin. apply existsb_In in Hin. congruence.
    - destruct (existsb (Z.eqb n) rm) eqn:E; [|reflexivity]. apply existsb_In in E. contradiction.
  Qed.

  (* ---- one iteration preserves the invariant and never crashes ---- *)
  Lemma iter_inv s p c ok :
    Inv s -> nth_error path (w_step s) = Some (p, c) -> build c = true ->
    match iter s p c ok with
    | Running s' => Inv s'
    | Finished s' => ok = false /\ w_success s' = false /\ w_pos s' = w_pos s
    | Crashed _ => False
    | OutOfFuel => False
    end.
  Proof.
    intros I Hn Hb. unfold Walk.iter.
    pose proof (prev_positioned s p c I Hn) as Hp. apply existsb_In in Hp. rewrite Hp. cbn [negb].
    pose proof (cur_unpositioned s p c I Hn Hb) as Hc.
    assert (Hlt : forall a, In a (w_placed s) -> fst a < fst (w_step s, c)).
    { intros [j n] Ha. cbn. apply (i_rec s I) in Ha. tauto. }
    destruct ok.
    - (* accepted *)
      constructor; cbn [w_placed w_step w_pos].
      + apply cut_snoc; [apply (i_cut s I)|exact Hlt].
      + intros j n Hin. apply in_app_iff in Hin. destruct Hin as [Hin|[E|[]]].
        * destruct (i_rec s I _ _ Hin) as (H1 & H2 & H3). repeat split; auto.
        * injection E as <- <-. repeat split; [lia|exact Hb|eauto].
      + intros j q n Hj Hq Hbn. apply in_app_iff. destruct (Nat.eq_dec j (w_step s)) as [->|Hne].
        * right. rewrite Hq in Hn. injection Hn as -> ->. left; reflexivity.
        * left. eapply (i_all s I); [lia|exact Hq|exact Hbn].
      + intros n. rewrite map_app, in_app_iff. cbn [map In snd]. rewrite (i_pos s I n). tauto.
      + constructor; [exact Hc|apply (i_nodup s I)].
    - destruct (w_count s <? maxiter) eqn:Ecount.
      + rewrite app_length. cbn [length].
        destruct (length (w_placed s) + 1 <? nrewind + 1) eqn:Elen.
        * cbn [w_success w_pos]. repeat split.
        * apply Nat.ltb_ge in Elen. assert (Hlen : nrewind <= length (w_placed s)) by lia.
          rewrite (rewind_char (w_pos s) (w_placed s) (w_step s, c) Hlen). cbv zeta.
          set (m := length (w_placed s) + 1 - nrewind).
          assert (Hsplit : w_placed s = firstn m (w_placed s) ++ skipn m (w_placed s)) by (symmetry; apply firstn_skipn).
          set (placed2 := firstn m (w_placed s)) in *. set (mid := skipn m (w_placed s)) in *.
          assert (Hstep2 : forall b, In b mid -> fst (hd (w_step s, c) mid) <= fst b).
          { intros b Hbm. destruct mid as [|h r] eqn:Em; [destruct Hbm|]. cbn [hd]. destruct Hbm as [->|Hbm]; [lia|].
            apply Nat.lt_le_incl. apply (i_cut s I (placed2 ++ [h]) r).
            - rewrite Hsplit, <- app_assoc. reflexivity.
            - apply in_app_iff. right. left. reflexivity.
            - exact Hbm. }
          assert (Hstep2le : fst (hd (w_step s, c) mid) <= w_step s).
          { destruct mid as [|[j n] r] eqn:Em; cbn [hd fst]; [lia|].
            assert (Hin : In (j, n) (w_placed s)) by (rewrite Hsplit; apply in_app_iff; right; left; reflexivity).
            apply (i_rec s I) in Hin. lia. }
          constructor; cbn [w_placed w_step w_pos].
          -- apply (cut_prefix placed2 mid). rewrite <- Hsplit. apply (i_cut s I).
          -- intros j n Hin.
             assert (Hin' : In (j, n) (w_placed s)) by (rewrite Hsplit; apply in_app_iff; left; exact Hin).
             destruct (i_rec s I _ _ Hin') as (H1 & H2 & H3). repeat split; auto.
             destruct mid as [|h r] eqn:Em; cbn [hd]; [cbn; exact H1|].
             apply (i_cut s I placed2 (h :: r) Hsplit (j, n) h Hin). left; reflexivity.
          -- intros j q n Hj Hq Hbn.
             assert (Hin : In (j, n) (w_placed s)) by (eapply (i_all s I); [lia|exact Hq|exact Hbn]).
             rewrite Hsplit in Hin. apply in_app_iff in Hin. destruct Hin as [Hin|Hin]; [exact Hin|].
             apply Hstep2 in Hin. cbn [fst] in Hin. lia.
          -- intros n. rewrite remove_nodes_In, (i_pos s I n). rewrite Hsplit at 1. rewrite map_app, in_app_iff.
             split.
             ++ intros [[H|[H|H]] Hnot]; [left; exact H|right; exact H|contradiction].
             ++ intros [H|H].
                ** split; [left; exact H|]. intros Hm. apply in_map_iff in Hm. destruct Hm as ([j n'] & E & Hm). cbn in E; subst n'.
                   assert (Hin : In (j, n) (w_placed s)) by (rewrite Hsplit; apply in_app_iff; right; exact Hm).
                   destruct (i_rec s I _ _ Hin) as (_ & Hbn & q & Hq).
                   apply Hpos0 in H. destruct H as [->|H].
                   --- apply Hroot_src. eapply nth_error_snd; exact Hq.
                   --- eapply Hbuild; [eapply nth_error_snd; exact Hq|exact Hbn|exact H].
                ** split; [right; left; exact H|]. intros Hm.
                   apply in_map_iff in H. destruct H as ([j1 n1] & E1 & H1). cbn in E1; subst n1.
                   apply in_map_iff in Hm. destruct Hm as ([j2 n2] & E2 & H2). cbn in E2; subst n2.
                   pose proof (i_cut s I placed2 mid Hsplit _ _ H1 H2) as Hlt12. cbn in Hlt12.
                   assert (Hin1 : In (j1, n) (w_placed s)) by (rewrite Hsplit; apply in_app_iff; left; exact H1).
                   assert (Hin2 : In (j2, n) (w_placed s)) by (rewrite Hsplit; apply in_app_iff; right; exact H2).
                   destruct (i_rec s I _ _ Hin1) as (_ & _ & q1 & Hq1). destruct (i_rec s I _ _ Hin2) as (_ & _ & q2 & Hq2).
                   pose proof (target_unique _ _ _ _ _ Hq1 Hq2). lia.
          -- unfold remove_nodes. apply NoDup_filter. apply (i_nodup s I).
      + cbn [w_success w_pos]. repeat split.
  Qed.

  (* ---- the loop, for every oracle stream ---- *)
  Lemma skip_inv s p c :
    Inv s -> nth_error path (w_step s) = Some (p, c) -> build c = false ->
    Inv {| w_pos := w_pos s; w_placed := w_placed s; w_step := S (w_step s); w_count := w_count s; w_success := w_success s |}.
  Proof.
    intros I Hn Hb. constructor; cbn [w_placed w_step w_pos].
    - apply (i_cut s I).
    - intros j n Hin. destruct (i_rec s I _ _ Hin) as (H1 & H2 & H3). repeat split; auto.
    - intros j q n Hj Hq Hbn. destruct (Nat.eq_dec j (w_step s)) as [->|Hne].
      + rewrite Hq in Hn. injection Hn as -> ->. congruence.
      + eapply (i_all s I); [lia|exact Hq|exact Hbn].
    - apply (i_pos s I).
    - apply (i_nodup s I).
  Qed.

  Definition all_positioned (pos : list Z) : Prop :=
    In root pos /\ forall n, In n (map snd path) -> In n pos.

  Theorem loop_sound fuel : forall oracle s,
    Inv s ->
    match loop fuel oracle s with
    | Finished s' => NoDup (w_pos s') /\
                     (w_success s' = true -> nth_error path (w_step s') = None /\ Inv s') /\
                     (forall n, In n pos0 -> In n (w_pos s')) /\
                     (forall n, In n (w_pos s') -> In n pos0 \/ (In n (map snd path) /\ build n = true))
    | Crashed _ => False
    | Running _ => False
    | OutOfFuel => True
    end.
  Proof.
    assert (Hbounds : forall s, Inv s ->
              (forall n, In n pos0 -> In n (w_pos s)) /\
              (forall n, In n (w_pos s) -> In n pos0 \/ (In n (map snd path) /\ build n = true))).
    { intros s I. split; intros n Hn.
      - apply (i_pos s I). left; exact Hn.
      - apply (i_pos s I) in Hn. destruct Hn as [Hn|Hn]; [left; exact Hn|right].
        apply in_map_iff in Hn. destruct Hn as ([j m] & E & Hn). cbn in E; subst m.
        destruct (i_rec s I _ _ Hn) as (_ & Hb & q & Hq). split; [eapply nth_error_snd; exact Hq|exact Hb]. }
    induction fuel as [|f IH]; intros oracle s I; cbn [Walk.loop]; [exact Logic.I|].
    destruct (nth_error path (w_step s)) as [[p c]|] eqn:Hn.
    - destruct (build c) eqn:Hb; cbn [negb].
      + destruct oracle as [|ok rest]; [exact Logic.I|].
        pose proof (iter_inv s p c ok I Hn Hb) as H.
        destruct (iter s p c ok) as [s'|s'|s'|] eqn:Ei.
        * apply IH. exact H.
        * destruct H as (_ & Hs & Hp). split; [rewrite Hp; apply (i_nodup s I)|].
          split; [intros Ht; congruence|]. rewrite Hp. apply Hbounds; exact I.
        * exact H.
        * destruct H.
      + apply IH. eapply skip_inv; eassumption.
    - split; [apply (i_nodup s I)|]. split; [intros _; split; [exact Hn|exact I]|]. apply Hbounds; exact I.
  Qed.

  (* a run that leaves the loop at its end has every residue of the molecule positioned, once *)
  Theorem finished_all_positioned s :
    Inv s -> nth_error path (w_step s) = None -> all_positioned (w_pos s) /\ NoDup (w_pos s).
  Proof.
    intros I Hn. split; [|apply (i_nodup s I)]. split.
    - apply (i_pos s I). left. exact Hroot_pos.
    - intros n Hin. apply in_map_iff in Hin. destruct Hin as ([p c] & E & Hin). cbn in E; subst c.
      apply In_nth_error in Hin. destruct Hin as (j & Hj).
      assert (Hlt : j < w_step s).
      { apply nth_error_None in Hn. assert (j < length path) by (apply nth_error_Some; congruence). lia. }
      apply (i_pos s I). destruct (build n) eqn:Hb.
      + right. change n with (snd (j, n)). apply in_map. eapply (i_all s I); eassumption.
      + left. apply Hpre_sub. eapply Hnobuild; [eapply nth_error_snd; exact Hj|exact Hb].
  Qed.

  Lemma init_inv succ : Inv {| w_pos := pos0; w_placed := []; w_step := 0; w_count := 0; w_success := succ |}.
  Proof.
    constructor; cbn [w_placed w_step w_pos].
    - intros l1 l2 E a b Ha. symmetry in E. apply app_eq_nil in E. destruct E as [-> _]. destruct Ha.
    - intros j n [].
    - intros j q n Hj. lia.
    - intros n. cbn. tauto.
    - exact Hnodup0.
  Qed.
End Proofs.

(* ------------------------------------------------------------------ whole walk, whole attempts *)
Section Whole.
  Variable path : list (Z * Z).
  Variable build : Z -> bool.
  Variable nrewind maxiter : nat.
  Variable root : Z.
  Variable root_attr : bool.           (* the root carries a supplied position *)
  Variable pre : list Z.               (* residues with supplied positions *)

  Hypothesis Hnr : 1 <= nrewind.
  Hypothesis Hdistinct : NoDup (map snd path).
  Hypothesis Horder : forall i p c, nth_error path i = Some (p, c) ->
    p = root \/ exists j q, j < i /\ nth_error path j = Some (q, p).
  Hypothesis Hroot_src : ~ In root (map snd path).
  Hypothesis Hnobuild : forall n, In n (map snd path) -> build n = false -> In n pre.
  Hypothesis Hbuild : forall n, In n (map snd path) -> build n = true -> ~ In n pre.
  Hypothesis Hroot_attr : root_attr = true <-> In root pre.

  Definition molecule_positioned (pos : list Z) : Prop :=
    NoDup pos /\ In root pos /\ forall n, In n (map snd path) -> In n pos.

  Definition same_set (a b : list Z) : Prop := forall n, In n a <-> In n b.

  (* one attempt started from any duplicate-free listing of the supplied residues *)
  Theorem walk_sound fuel first_ok oracle pos :
    NoDup pos -> same_set pos pre ->
    match walk path build nrewind maxiter fuel root root_attr pos first_ok oracle with
    | Finished s =>
        NoDup (w_pos s) /\
        (w_success s = true -> molecule_positioned (w_pos s)) /\
        (forall n, In n pre -> In n (w_pos s)) /\
        (forall n, In n (w_pos s) -> In n pre \/ (n = root /\ root_attr = false) \/ (In n (map snd path) /\ build n = true))
    | Crashed _ => False
    | Running _ => False
    | OutOfFuel => True
    end.
  Proof.
    intros ND HS. unfold walk.
    assert (Hnb : forall n, In n (map snd path) -> build n = false -> In n pos) by (intros; apply HS; auto).
    assert (Hb : forall n, In n (map snd path) -> build n = true -> ~ In n pos) by (intros n H1 H2 H3; apply HS in H3; eapply Hbuild; eauto).
    destruct root_attr eqn:Era.
    - assert (Hr : In root pos) by (apply HS, Hroot_attr; reflexivity).
      pose proof (loop_sound path build nrewind maxiter root pos pos Hnr Hdistinct Horder Hr Hroot_src
                    (fun n H => H) (fun n H => or_intror H) Hnb Hb fuel oracle _
                    (init_inv path build nrewind pos Hnr ND false)) as H.
      destruct (Walk.loop _ _ _ _ _ _ _) as [s|s|s|]; try exact H.
      destruct H as (H1 & H2 & H3 & H4). split; [exact H1|]. split; [|split].
      + intros Hs. destruct (H2 Hs) as [Hn I].
        destruct (finished_all_positioned path build nrewind root pos pos Hnr Hr (fun n H => H) Hnb s I Hn) as [[Ha Hb'] Hc].
        repeat split; assumption.
      + intros n Hn. apply H3, HS, Hn.
      + intros n Hn. apply H4 in Hn. destruct Hn as [Hn|Hn]; [left; apply HS; exact Hn|right; right; exact Hn].
    - assert (Hr : ~ In root pos).
      { intros Hin. apply HS, Hroot_attr in Hin. discriminate. }
      destruct first_ok.
      + assert (ND' : NoDup (root :: pos)) by (constructor; assumption).
        pose proof (loop_sound path build nrewind maxiter root pos (root :: pos) Hnr Hdistinct Horder
                      (or_introl eq_refl) Hroot_src (fun n H => or_intror H)
                      (fun n H => match H with or_introl E => or_introl (eq_sym E) | or_intror H' => or_intror H' end)
                      Hnb Hb fuel oracle _ (init_inv path build nrewind (root :: pos) Hnr ND' true)) as H.
        destruct (Walk.loop _ _ _ _ _ _ _) as [s|s|s|]; try exact H.
        destruct H as (H1 & H2 & H3 & H4). split; [exact H1|]. split; [|split].
        * intros Hs. destruct (H2 Hs) as [Hn I].
          destruct (finished_all_positioned path build nrewind root pos (root :: pos) Hnr (or_introl eq_refl)
                      (fun n H => or_intror H) Hnb s I Hn) as [[Ha Hb'] Hc].
          repeat split; assumption.
        * intros n Hn. apply H3. right. apply HS, Hn.
        * intros n Hn. apply H4 in Hn. destruct Hn as [[<-|Hn]|Hn]; [right; left; auto|left; apply HS; exact Hn|right; right; exact Hn].
      + cbn [w_pos w_success]. split; [exact ND|]. split; [discriminate|]. split.
        * intros n Hn. apply HS, Hn.
        * intros n Hn. left. apply HS, Hn.
  Qed.

  (* molecule attempts: after every abandoned attempt exactly the supplied residues remain, so
     every attempt starts from them; no attempt ever grows from an unpositioned residue, and
     an attempt sequence that ends successfully has positioned every residue exactly once *)
  Variable attempts_max : nat.
  Variable cleanup : list Z.
  Hypothesis Hclean : forall n, In n cleanup <->
    ((n = root /\ root_attr = false) \/ (In n (map snd path) /\ build n = true)).

  Lemma cleanup_restores pos :
    (forall n, In n pre -> In n pos) ->
    (forall n, In n pos -> In n pre \/ (n = root /\ root_attr = false) \/ (In n (map snd path) /\ build n = true)) ->
    same_set (remove_nodes cleanup pos) pre.
  Proof.
    intros H1 H2 n. unfold remove_nodes. rewrite filter_In, negb_true_iff. split.
    - intros [Hin Hex]. destruct (H2 n Hin) as [H|H]; [exact H|].
      exfalso. assert (Hc : In n cleanup) by (apply Hclean; exact H).
      assert (existsb (Z.eqb n) cleanup = true); [|congruence].
      apply existsb_exists. exists n. split; [exact Hc|apply Z.eqb_refl].
    - intros Hn. split; [apply H1; exact Hn|].
      destruct (existsb (Z.eqb n) cleanup) eqn:E; [|reflexivity]. exfalso.
      apply existsb_exists in E. destruct E as (x & Hx & Ex). apply Z.eqb_eq in Ex; subst x.
      apply Hclean in Hx. destruct Hx as [[-> Hra]|[Ht Hb]].
      + apply Hroot_attr in Hn. congruence.
      + eapply Hbuild; eauto.
  Qed.

  Theorem handle_sound fuel attempts : forall k pos,
    NoDup pos -> same_set pos pre ->
    match handle path build nrewind maxiter attempts_max fuel root root_attr cleanup pos k attempts with
    | HDone true p => molecule_positioned p
    | HDone false p => NoDup p /\ same_set p pre
    | HCrashed _ => False
    | HOut => True
    end.
  Proof.
    induction attempts as [|[first_ok oracle] rest IH]; intros k pos ND HS; cbn [handle]; [exact I|].
    pose proof (walk_sound fuel first_ok oracle pos ND HS) as H.
    destruct (walk path build nrewind maxiter fuel root root_attr pos first_ok oracle) as [s|s|s|]; try exact I; try exact H.
    destruct H as (H1 & H2 & H3 & H4).
    destruct (w_success s) eqn:Es; [apply H2; reflexivity|].
    assert (NDc : NoDup (remove_nodes cleanup (w_pos s))) by (apply NoDup_filter; exact H1).
    pose proof (cleanup_restores (w_pos s) H3 H4) as Hsame.
    destruct (k =? attempts_max); [split; assumption|]. apply IH; assumption.
  Qed.
End Whole.

From PV Require Import Gen_build.
Lemma gen_cleanup_built_only : cleanup_all = false.
Proof. reflexivity. Qed.

Example ex_walk :
  match walk [(0, 1); (1, 2); (2, 3)]%Z (fun n => negb (Z.eqb n 3)) 1 50 100 0%Z false [3%Z] true
             [true; false; true] with
  | Finished s => w_success s = true /\ w_pos s = [2; 1; 0; 3]%Z /\ w_placed s = [(0, 1%Z); (1, 2%Z)]
  | _ => False
  end.
Proof. vm_compute. repeat split. Qed.
