(* C01, last sentence: a modification changes nothing but the atoms it names in its target
   residue.  Proofs over model/Mods.v. *)
From Coq Require Import ZArith String List Bool Lia.
From PV Require Import Mods Gen_mods.
Import ListNotations.
Open Scope Z_scope.

(* ---- python dict update ---- *)
Lemma dget_dset_same d k v : dget (dset d k v) k = Some v.
Proof.
  induction d as [|[k' v'] r IH]; cbn; [rewrite String.eqb_refl; reflexivity|].
  destruct (String.eqb k' k) eqn:E; cbn; rewrite E; [reflexivity|exact IH].
Qed.

Lemma dget_dset_other d k k' v : k' <> k -> dget (dset d k' v) k = dget d k.
Proof.
  intros Hne. induction d as [|[k0 v0] r IH]; cbn.
  - destruct (String.eqb k' k) eqn:E; [apply String.eqb_eq in E; contradiction|reflexivity].
  - destruct (String.eqb k0 k') eqn:E0; cbn.
    + apply String.eqb_eq in E0; subst k0.
      destruct (String.eqb k' k) eqn:E; [apply String.eqb_eq in E; contradiction|reflexivity].
    + destruct (String.eqb k0 k); [reflexivity|exact IH].
Qed.

(* a key the update does not mention keeps its value *)
Lemma dget_dupdate_none upd : forall d k, dget upd k = None -> dget (dupdate d upd) k = dget d k.
Proof.
  unfold dupdate. induction upd as [|[k' v'] r IH]; intros d k H; cbn in *; [reflexivity|].
  destruct (String.eqb k' k) eqn:E; [discriminate|].
  rewrite IH by exact H. apply dget_dset_other. intros ->. rewrite String.eqb_refl in E. discriminate.
Qed.

(* the last value the update lists for a key *)
Fixpoint dlast (upd : attrs) (k : string) : option string :=
  match upd with
  | [] => None
  | (k', v) :: r => match dlast r k with Some x => Some x | None => if String.eqb k' k then Some v else None end
  end.

Lemma dlast_none upd k : dlast upd k = None <-> dget upd k = None.
Proof.
  induction upd as [|[k' v] r IH]; cbn; [tauto|].
  destruct (String.eqb k' k) eqn:E; destruct (dlast r k) eqn:El.
  - split; intros H; discriminate.
  - split; intros H; discriminate.
  - split; intros H; [discriminate|]. apply IH in H. discriminate.
  - split; intros _; [apply IH|]; reflexivity.
Qed.

Lemma dget_dupdate_some upd : forall d k v, dlast upd k = Some v -> dget (dupdate d upd) k = Some v.
Proof.
  unfold dupdate. induction upd as [|[k' v'] r IH]; intros d k v H; cbn in *; [discriminate|].
  destruct (dlast r k) eqn:El.
  - apply IH. rewrite El. exact H.
  - destruct (String.eqb k' k) eqn:E; [|discriminate]. injection H as <-.
    apply String.eqb_eq in E; subst k'.
    assert (Hn : dget r k = None) by (apply dlast_none; exact El).
    change (dget (dupdate (dset d k v') r) k = Some v').
    rewrite dget_dupdate_none by exact Hn. apply dget_dset_same.
Qed.

(* ---- one atom under a list of (residue, modification) steps ---- *)
Definition step := (residue * modif)%type.
Definition touch_all (steps : list step) (a : atom) : atom := fold_left (fun a s => touch (fst s) (snd s) a) steps a.

Lemma touch_key r md a : at_key (touch r md a) = at_key a.
Proof. unfold touch. destruct (zmem _ _); [destruct (mod_lookup _ _)|]; reflexivity. Qed.

Lemma touch_all_key steps : forall a, at_key (touch_all steps a) = at_key a.
Proof.
  unfold touch_all. induction steps as [|s r IH]; intros a; cbn; [reflexivity|].
  rewrite IH. apply touch_key.
Qed.

Lemma zmem_In x l : zmem x l = true <-> In x l.
Proof.
  unfold zmem. rewrite existsb_exists. split.
  - intros [y [Hy E]]. apply Z.eqb_eq in E. subst. exact Hy.
  - intros H. exists x. split; [exact H|apply Z.eqb_refl].
Qed.

Lemma touch_outside r md a : ~ In (at_key a) (rs_atoms r) -> touch r md a = a.
Proof.
  intros H. unfold touch. destruct (zmem _ _) eqn:E; [apply zmem_In in E; contradiction|reflexivity].
Qed.

Lemma touch_unnamed r md a : mod_lookup (md_atoms md) (at_name a) = None -> touch r md a = a.
Proof. intros H. unfold touch. rewrite H. destruct (zmem _ _); reflexivity. Qed.

(* residue frame: an atom outside every target residue is untouched *)
Lemma touch_all_outside steps : forall a,
  (forall s, In s steps -> ~ In (at_key a) (rs_atoms (fst s))) -> touch_all steps a = a.
Proof.
  unfold touch_all. induction steps as [|s r IH]; intros a H; cbn; [reflexivity|].
  rewrite touch_outside by (apply H; left; reflexivity).
  apply IH. intros s' Hs'. apply H. right. exact Hs'.
Qed.

Lemma mod_lookup_in l n upd : mod_lookup l n = Some upd -> In (n, upd) l.
Proof.
  induction l as [|[n' r] rest IH]; cbn; [discriminate|].
  destruct (mod_lookup rest n) eqn:E.
  - intros H. injection H as <-. right. apply IH. reflexivity.
  - destruct (String.eqb n' n) eqn:En; [|discriminate]. intros H. injection H as <-.
    apply String.eqb_eq in En. subst. left. reflexivity.
Qed.

(* attribute frame: an attribute no modification of the atom's residue lists keeps its value *)
Lemma touch_attr r md a k :
  (In (at_key a) (rs_atoms r) -> forall n upd, In (n, upd) (md_atoms md) -> dget upd k = None) ->
  dget (at_attrs (touch r md a)) k = dget (at_attrs a) k.
Proof.
  intros H. unfold touch. destruct (zmem _ _) eqn:E; [|reflexivity].
  apply zmem_In in E. destruct (mod_lookup _ _) as [upd|] eqn:El; [|reflexivity].
  cbn. apply dget_dupdate_none. apply (H E (at_name a)). apply mod_lookup_in. exact El.
Qed.

Lemma touch_all_attr steps k : forall a,
  (forall s, In s steps -> In (at_key a) (rs_atoms (fst s)) -> forall n upd, In (n, upd) (md_atoms (snd s)) -> dget upd k = None) ->
  dget (at_attrs (touch_all steps a)) k = dget (at_attrs a) k.
Proof.
  unfold touch_all. induction steps as [|s r IH]; intros a H; cbn; [reflexivity|].
  rewrite IH.
  - apply touch_attr. apply H. left. reflexivity.
  - intros s' Hs'. rewrite touch_key. apply H. right. exact Hs'.
Qed.

(* name frame: when no modification renames atoms, an atom whose name no modification of its
   residue lists is untouched *)
Definition no_rename (md : modif) : Prop := forall n upd, In (n, upd) (md_atoms md) -> dget upd "atomname" = None.

Lemma touch_all_unnamed steps : forall a,
  (forall s, In s steps -> In (at_key a) (rs_atoms (fst s)) -> mod_lookup (md_atoms (snd s)) (at_name a) = None) ->
  touch_all steps a = a.
Proof.
  unfold touch_all. induction steps as [|s r IH]; intros a H; cbn; [reflexivity|].
  assert (E : touch (fst s) (snd s) a = a).
  { unfold touch. destruct (zmem _ _) eqn:Ez; [|reflexivity].
    apply zmem_In in Ez. rewrite (H s (or_introl eq_refl) Ez). reflexivity. }
  rewrite E. apply IH. intros s' Hs'. apply H. right. exact Hs'.
Qed.

(* the listed attributes are set: after the last step that names the atom, every key of its
   update carries the listed value (single step form) *)
Lemma touch_sets r md a upd k v :
  In (at_key a) (rs_atoms r) -> mod_lookup (md_atoms md) (at_name a) = Some upd -> dlast upd k = Some v ->
  dget (at_attrs (touch r md a)) k = Some v.
Proof.
  intros Hin Hl Hk. unfold touch. destruct (zmem _ _) eqn:E.
  - rewrite Hl. cbn. apply dget_dupdate_some. exact Hk.
  - exfalso. apply zmem_In in Hin. rewrite Hin in E. discriminate.
Qed.

(* ---- the run ---- *)
Section Run.
  Variable applicable : string -> bool.
  Variable table : list modif.
  Variable residues : list residue.

  (* the targets that act: modification and residue exist, from_itp truthy, name applicable *)
  Definition acting (t : Z * string) : list step :=
    match find_modif table (snd t), find_residue residues (fst t) with
    | Some md, Some r => if rs_from_itp r && applicable (rs_resname r) then [(r, md)] else []
    | _, _ => []
    end.
  Definition acts (ts : list (Z * string)) : list step := flat_map acting ts.

  Lemma apply_one_atoms m t m' :
    apply_one applicable table residues m t = Some m' ->
    ml_atoms m' = map (touch_all (acting t)) (ml_atoms m) /\
    exists extra, ml_inters m' = (ml_inters m ++ extra)%list /\
                  forall i, In i extra -> exists s, In s (acting t) /\ forall x, In x (in_atoms i) -> In x (rs_atoms (fst s)).
  Proof.
    unfold apply_one, acting. destruct (find_modif table (snd t)) as [md|]; [|discriminate].
    destruct (find_residue residues (fst t)) as [r|]; [|discriminate].
    destruct (rs_from_itp r); cbn [negb andb].
    2:{ intros H. injection H as <-. split; [symmetry; apply map_id|]. exists []. rewrite app_nil_r. split; [reflexivity|intros i []]. }
    destruct (applicable (rs_resname r)); cbn [negb].
    2:{ intros H. injection H as <-. split; [symmetry; apply map_id|]. exists []. rewrite app_nil_r. split; [reflexivity|intros i []]. }
    destruct (add_inters (ml_atoms m) r md (md_inters md)) as [extra|] eqn:Ea; [|discriminate].
    intros H. injection H as <-. cbn. split; [reflexivity|].
    exists extra. split; [reflexivity|].
    intros i Hi. exists (r, md). split; [left; reflexivity|]. cbn [fst].
    revert extra Ea Hi. generalize (md_inters md) as l.
    induction l as [|mi rest IH]; intros extra Ea Hi; cbn in Ea.
    - injection Ea as <-. destruct Hi.
    - destruct (anum (ml_atoms m) md (rs_atoms r) (mi_a mi)) as [xa|] eqn:Exa; [|discriminate].
      destruct (anum (ml_atoms m) md (rs_atoms r) (mi_b mi)) as [xb|] eqn:Exb; [|discriminate].
      destruct (add_inters (ml_atoms m) r md rest) as [tl|] eqn:Et; [|discriminate].
      injection Ea as <-. destruct Hi as [<-|Hi]; [|exact (IH tl eq_refl Hi)].
      cbn [in_atoms]. intros x [<-|[<-|[]]].
      + clear -Exa. revert Exa. generalize (rs_atoms r) as keys. induction keys as [|k ks IHk]; cbn; [discriminate|].
        destruct (anum (ml_atoms m) md ks (mi_a mi)) eqn:E0.
        * intros H. injection H as <-. right. apply IHk. reflexivity.
        * destruct (find_atom (ml_atoms m) k); [|discriminate].
          destruct (_ && _); [|discriminate]. intros H. injection H as <-. left. reflexivity.
      + clear -Exb. revert Exb. generalize (rs_atoms r) as keys. induction keys as [|k ks IHk]; cbn; [discriminate|].
        destruct (anum (ml_atoms m) md ks (mi_b mi)) eqn:E0.
        * intros H. injection H as <-. right. apply IHk. reflexivity.
        * destruct (find_atom (ml_atoms m) k); [|discriminate].
          destruct (_ && _); [|discriminate]. intros H. injection H as <-. left. reflexivity.
  Qed.

  Lemma touch_all_app s1 s2 a : touch_all (s1 ++ s2) a = touch_all s2 (touch_all s1 a).
  Proof. unfold touch_all. apply fold_left_app. Qed.

  (* the atoms after the whole run: every atom folded through the acting targets, in order;
     interactions only appended, each on atoms of an acting target's residue *)
  Lemma apply_mods_final ts : forall m m',
    apply_mods applicable table residues m ts = Some m' ->
    ml_atoms m' = map (touch_all (acts ts)) (ml_atoms m) /\
    exists extra, ml_inters m' = (ml_inters m ++ extra)%list /\
                  forall i, In i extra -> exists s, In s (acts ts) /\ forall x, In x (in_atoms i) -> In x (rs_atoms (fst s)).
  Proof.
    induction ts as [|t rest IH]; intros m m' H; cbn in H.
    - injection H as <-. split; [symmetry; apply map_id|]. exists []. rewrite app_nil_r. split; [reflexivity|intros i []].
    - destruct (apply_one applicable table residues m t) as [m1|] eqn:E1; [|discriminate].
      destruct (apply_one_atoms _ _ _ E1) as [Ha [ex1 [Hi1 Hx1]]].
      destruct (IH _ _ H) as [Hb [ex2 [Hi2 Hx2]]].
      split.
      + rewrite Hb, Ha, map_map. apply map_ext. intros a. unfold acts. cbn [flat_map]. symmetry. apply touch_all_app.
      + exists (ex1 ++ ex2)%list. split; [rewrite Hi2, Hi1, app_assoc; reflexivity|].
        intros i Hi. apply in_app_or in Hi. unfold acts. cbn [flat_map].
        destruct Hi as [Hi|Hi].
        * destruct (Hx1 i Hi) as [s [Hs Hs2]]. exists s. split; [apply in_or_app; left; exact Hs|exact Hs2].
        * destruct (Hx2 i Hi) as [s [Hs Hs2]]. exists s. split; [apply in_or_app; right; exact Hs|exact Hs2].
  Qed.

  Lemma in_acts s ts :
    In s (acts ts) <->
    exists t, In t ts /\ find_modif table (snd t) = Some (snd s) /\ find_residue residues (fst t) = Some (fst s) /\
              rs_from_itp (fst s) = true /\ applicable (rs_resname (fst s)) = true.
  Proof.
    unfold acts. rewrite in_flat_map. split.
    - intros [t [Ht Hs]]. exists t. split; [exact Ht|]. unfold acting in Hs.
      destruct (find_modif table (snd t)) as [md|]; [|destruct Hs].
      destruct (find_residue residues (fst t)) as [r|]; [|destruct Hs].
      destruct (rs_from_itp r) eqn:Ef; cbn [andb] in Hs; [|destruct Hs].
      destruct (applicable (rs_resname r)) eqn:Ea; [|destruct Hs].
      destruct Hs as [<-|[]]. cbn. auto.
    - intros [t [Ht [Hm [Hr [Hf Ha]]]]]. exists t. split; [exact Ht|]. unfold acting.
      rewrite Hm, Hr, Hf, Ha. left. destruct s; reflexivity.
  Qed.

  (* C01 (modifications): statement in terms of the targets *)
  Definition acts_on (ts : list (Z * string)) (key : Z) (md : modif) : Prop :=
    exists t r, In t ts /\ find_modif table (snd t) = Some md /\ find_residue residues (fst t) = Some r /\
                rs_from_itp r = true /\ applicable (rs_resname r) = true /\ In key (rs_atoms r).

  Theorem modifications_frame m ts m' :
    apply_mods applicable table residues m ts = Some m' ->
    (* same atoms, same keys, same order *)
    map at_key (ml_atoms m') = map at_key (ml_atoms m) /\
    Forall2 (fun a a' =>
      (* residue frame *)
      ((forall md, ~ acts_on ts (at_key a) md) -> a' = a) /\
      (* named-atom frame *)
      ((forall md, acts_on ts (at_key a) md -> mod_lookup (md_atoms md) (at_name a) = None) -> a' = a) /\
      (* attribute frame *)
      (forall k, (forall md, acts_on ts (at_key a) md -> forall n upd, In (n, upd) (md_atoms md) -> dget upd k = None) ->
                 dget (at_attrs a') k = dget (at_attrs a) k)) (ml_atoms m) (ml_atoms m') /\
    (* interactions: the old ones in place, new ones only on atoms of a residue a modification acts on *)
    exists extra, ml_inters m' = (ml_inters m ++ extra)%list /\
                  forall i, In i extra -> exists md, forall x, In x (in_atoms i) -> acts_on ts x md.
  Proof.
    intros H. destruct (apply_mods_final _ _ _ H) as [Ha [extra [Hi Hx]]].
    split; [|split].
    - rewrite Ha, map_map. apply map_ext. intros a. apply touch_all_key.
    - rewrite Ha. clear Ha Hi Hx H. induction (ml_atoms m) as [|a l IH]; cbn [map]; constructor; [|exact IH].
      assert (Hact : forall s, In s (acts ts) -> In (at_key a) (rs_atoms (fst s)) -> acts_on ts (at_key a) (snd s)).
      { intros s Hs Hin. apply in_acts in Hs. destruct Hs as [t [Ht [Hm [Hr [Hf Hap]]]]].
        exists t, (fst s). auto 7. }
      split; [|split].
      + intros Hno. apply touch_all_outside. intros s Hs Hin. exact (Hno _ (Hact s Hs Hin)).
      + intros Hnn. apply touch_all_unnamed. intros s Hs Hin. apply Hnn. exact (Hact s Hs Hin).
      + intros k Hk. apply touch_all_attr. intros s Hs Hin n upd Hnu. exact (Hk _ (Hact s Hs Hin) n upd Hnu).
    - exists extra. split; [exact Hi|]. intros i Hin. destruct (Hx i Hin) as [s [Hs Hall]].
      exists (snd s). intros x Hxi. apply in_acts in Hs. destruct Hs as [t [Ht [Hm [Hr [Hf Hap]]]]].
      exists t, (fst s). auto 8.
  Qed.

  (* a target whose residue name is not applicable (or whose modification list is empty)
     changes nothing at all *)
  Theorem not_applicable_identity m ts m' :
    apply_mods applicable table residues m ts = Some m' ->
    (forall t r, In t ts -> find_residue residues (fst t) = Some r -> applicable (rs_resname r) = false) ->
    m' = m.
  Proof.
    revert m. induction ts as [|t rest IH]; intros m H Hna; cbn in H; [injection H as <-; reflexivity|].
    destruct (apply_one applicable table residues m t) as [m1|] eqn:E1; [|discriminate].
    assert (m1 = m).
    { unfold apply_one in E1. destruct (find_modif table (snd t)); [|discriminate].
      destruct (find_residue residues (fst t)) as [r|] eqn:Er; [|discriminate].
      destruct (negb (rs_from_itp r)); [injection E1 as <-; reflexivity|].
      rewrite (Hna t r (or_introl eq_refl) Er) in E1. cbn in E1. injection E1 as <-. reflexivity. }
    subst m1. apply IH; [exact H|]. intros t' r Ht'. apply Hna. right. exact Ht'.
  Qed.

  (* the same for apply_mod (nothing at all happens when the force field has no modifications) *)
  Theorem apply_mod_frame m ts m' :
    apply_mod applicable table residues m ts = Some m' ->
    map at_key (ml_atoms m') = map at_key (ml_atoms m) /\
    Forall2 (fun a a' =>
      ((forall md, ~ acts_on ts (at_key a) md) -> a' = a) /\
      ((forall md, acts_on ts (at_key a) md -> mod_lookup (md_atoms md) (at_name a) = None) -> a' = a) /\
      (forall k, (forall md, acts_on ts (at_key a) md -> forall n upd, In (n, upd) (md_atoms md) -> dget upd k = None) ->
                 dget (at_attrs a') k = dget (at_attrs a) k)) (ml_atoms m) (ml_atoms m') /\
    exists extra, ml_inters m' = (ml_inters m ++ extra)%list /\
                  forall i, In i extra -> exists md, forall x, In x (in_atoms i) -> acts_on ts x md.
  Proof.
    unfold apply_mod. destruct table as [|md0 rest] eqn:Et; [|rewrite <- Et; apply modifications_frame].
    intros H. injection H as <-. split; [reflexivity|]. split.
    - induction (ml_atoms m) as [|a l IH]; constructor; [|exact IH]. repeat split; intros; reflexivity.
    - exists []. rewrite app_nil_r. split; [reflexivity|intros i []].
  Qed.

  Theorem apply_mod_not_applicable m ts m' :
    apply_mod applicable table residues m ts = Some m' ->
    (forall t r, In t ts -> find_residue residues (fst t) = Some r -> applicable (rs_resname r) = false) ->
    m' = m.
  Proof.
    unfold apply_mod. destruct table as [|md0 rest] eqn:Et; [intros H _; injection H as <-; reflexivity|].
    rewrite <- Et. apply not_applicable_identity.
  Qed.

  (* and the named atoms of an applicable target do get the listed values (one target) *)
  Theorem single_target_sets m t m' md r :
    apply_mods applicable table residues m [t] = Some m' ->
    find_modif table (snd t) = Some md -> find_residue residues (fst t) = Some r ->
    rs_from_itp r = true -> applicable (rs_resname r) = true ->
    Forall2 (fun a a' => In (at_key a) (rs_atoms r) -> forall upd, mod_lookup (md_atoms md) (at_name a) = Some upd ->
                         forall k v, dlast upd k = Some v -> dget (at_attrs a') k = Some v) (ml_atoms m) (ml_atoms m').
  Proof.
    intros H Hm Hr Hf Ha. destruct (apply_mods_final _ _ _ H) as [Hat _]. rewrite Hat.
    unfold acts. cbn [flat_map]. rewrite app_nil_r. unfold acting. rewrite Hm, Hr, Hf, Ha. cbn [andb].
    clear Hat H. induction (ml_atoms m) as [|a l IH]; cbn [map]; constructor; [|exact IH].
    intros Hin upd Hl k v Hk. unfold touch_all. cbn [fold_left fst snd]. exact (touch_sets r md a upd k v Hin Hl Hk).
  Qed.
End Run.

(* non-vacuity: LYS-GLYC, N-ter on both: only the BB of the lysine changes *)
Open Scope string_scope.
Definition ex_atom k n ty := {| at_key := k; at_attrs := [("atomname", n); ("atype", ty); ("charge", "0.0")] |}.
Definition ex_mol := {| ml_atoms := [ex_atom 0 "BB" "P5"; ex_atom 1 "SC1" "C3"; ex_atom 2 "BB" "P3"; ex_atom 3 "SC1" "C1"]; ml_inters := [] |}.
Definition ex_res := [{| rs_resid := 1; rs_resname := "LYS"; rs_from_itp := true; rs_atoms := [0; 1]%Z |};
                      {| rs_resid := 2; rs_resname := "GLYC"; rs_from_itp := true; rs_atoms := [2; 3]%Z |}].
Definition ex_table := [{| md_name := "N-ter"; md_atoms := [("BB", [("atype", "Qd"); ("charge", "1.0")])]; md_inters := [] |}].
Example ex_mods :
  apply_mod (fun rn => existsb (String.eqb rn) ["GLY"; "LYS"]) ex_table ex_res ex_mol [(1%Z, "N-ter"); (2%Z, "N-ter")] =
  Some {| ml_atoms := [{| at_key := 0; at_attrs := [("atomname", "BB"); ("atype", "Qd"); ("charge", "1.0")] |};
                       ex_atom 1 "SC1" "C3"; ex_atom 2 "BB" "P3"; ex_atom 3 "SC1" "C1"]; ml_inters := [] |}.
Proof. vm_compute. reflexivity. Qed.

Close Scope string_scope.
Lemma applicable_exact rn : mod_applicable rn = true <-> In rn mod_applicable_names.
Proof.
  unfold mod_applicable. rewrite existsb_exists. split.
  - intros [x [Hx E]]. apply String.eqb_eq in E. subst. exact Hx.
  - intros H. exists rn. split; [exact H|apply String.eqb_refl].
Qed.
