(* C20: crash-point and backup theorems over the effect model, and the side conditions on
   the skeletons regenerated from gen_itp.py / gen_coords.py / gen_seq.py. *)
From Coq Require Import Arith String List Bool Lia.
From PV Require Import EffectKinds Effects Gen_effects.
Import ListNotations.

Section Proofs.
  Variable content : Type.
  Variable empty : content.
  Variable bk : string -> nat -> string.
  Notation exec := (exec content empty bk).
  Notation run := (run content empty bk).
  Notation lookup := (lookup content).
  Notation set := (set content).
  Notation remove := (remove content).
  Notation write_file := (write_file content bk).

  Lemma exec_invisible out data s k s' :
    visible k = false -> exec out data s k = Some s' -> e_fs content s' = e_fs content s.
  Proof. destruct k; cbn; try discriminate; intros _ H; injection H as <-; reflexivity. Qed.

  Lemma invisible_total out data s k : visible k = false -> exists s', exec out data s k = Some s'.
  Proof. destruct k; cbn; try discriminate; intros _; eexists; reflexivity. Qed.

  (* an exception after the first k statements, k not beyond the first visible statement,
     leaves the output directory exactly as it was -- and such a prefix never gets stuck *)
  Theorem crash_before_visible out data prog : forall k s, k <= first_visible prog ->
    exists s', run out data (firstn k prog) s = Some s' /\ e_fs content s' = e_fs content s.
  Proof.
    induction prog as [|x r IH]; intros k s Hk; cbn [first_visible] in Hk.
    - replace k with 0 by lia. exists s. split; reflexivity.
    - destruct k as [|k]; [exists s; split; reflexivity|].
      destruct (visible x) eqn:Hv; [lia|]. cbn [firstn Effects.run].
      destruct (invisible_total out data s x Hv) as (s1 & H1). rewrite H1.
      destruct (IH k s1 ltac:(lia)) as (s' & H2 & H3). exists s'. split; [exact H2|].
      rewrite H3. eapply exec_invisible; eassumption.
  Qed.

  (* ---- file-system lemmas ---- *)
  Lemma lookup_set_same f n c : lookup (set f n c) n = Some c.
  Proof.
    induction f as [|[k d] r IH]; cbn; [rewrite String.eqb_refl; reflexivity|].
    destruct (String.eqb k n) eqn:E; cbn; rewrite E; [reflexivity|exact IH].
  Qed.
  Lemma lookup_set_other f n m c : m <> n -> lookup (set f n c) m = lookup f m.
  Proof.
    intros Hne. induction f as [|[k d] r IH]; cbn.
    - destruct (String.eqb n m) eqn:E; [apply String.eqb_eq in E; congruence|reflexivity].
    - destruct (String.eqb k n) eqn:E; cbn.
      + apply String.eqb_eq in E; subst. destruct (String.eqb n m) eqn:E2; [apply String.eqb_eq in E2; congruence|reflexivity].
      + destruct (String.eqb k m); [reflexivity|exact IH].
  Qed.
  Lemma lookup_remove_other f n m : m <> n -> lookup (remove f n) m = lookup f m.
  Proof.
    intros Hne. induction f as [|[k d] r IH]; cbn; [reflexivity|].
    destruct (String.eqb k n) eqn:E; cbn.
    - apply String.eqb_eq in E; subst. destruct (String.eqb n m) eqn:E2; [apply String.eqb_eq in E2; congruence|reflexivity].
    - destruct (String.eqb k m); [reflexivity|exact IH].
  Qed.

  Lemma first_free_spec f n fuel : forall k j, first_free content bk f n fuel k = Some j ->
    k <= j /\ lookup f (bk n j) = None /\ forall i, k <= i < j -> lookup f (bk n i) <> None.
  Proof.
    induction fuel as [|fu IH]; intros k j H; cbn in H; [discriminate|].
    destruct (lookup f (bk n k)) eqn:E.
    - destruct (IH _ _ H) as (H1 & H2 & H3). split; [lia|]. split; [exact H2|].
      intros i Hi. destruct (Nat.eq_dec i k) as [->|Hne]; [congruence|apply H3; lia].
    - injection H as <-. split; [lia|]. split; [exact E|]. intros i Hi. lia.
  Qed.

  (* flush of one queued file: the complete new content is in place; a file previously at that
     path is kept, with its content, under the first free backup name; nothing else changes *)
  Theorem write_file_backs_up f final data f' :
    (forall k, bk final k <> final) ->
    write_file f final data = Some f' ->
    lookup f' final = Some data /\
    match lookup f final with
    | None => forall m, m <> final -> lookup f' m = lookup f m
    | Some old => exists k, 1 <= k /\ lookup f (bk final k) = None /\
                   (forall i, 1 <= i < k -> lookup f (bk final i) <> None) /\
                   lookup f' (bk final k) = Some old /\
                   forall m, m <> final -> m <> bk final k -> lookup f' m = lookup f m
    end.
  Proof.
    intros Hbk H. unfold Effects.write_file in H. destruct (lookup f final) as [old|] eqn:El.
    - destruct (first_free content bk f final (S (length f)) 1) as [k|] eqn:Ef; [|discriminate].
      injection H as <-. destruct (first_free_spec _ _ _ _ _ Ef) as (H1 & H2 & H3).
      split; [apply lookup_set_same|]. exists k. repeat split; try assumption.
      + rewrite lookup_set_other by apply Hbk. apply lookup_set_same.
      + intros m Hm1 Hm2. rewrite !lookup_set_other by assumption. apply lookup_remove_other; exact Hm1.
    - injection H as <-. split; [apply lookup_set_same|]. intros m Hm. apply lookup_set_other; exact Hm.
  Qed.
End Proofs.

(* ---- gen-dependent side conditions: the three programs as the source defines them now ---- *)
Definition kinds (p : list (stmt_kind * string)) := map fst p.

Lemma gen_params_shape : deferred_shape (kinds prog_gen_params) = true.
Proof. vm_compute. reflexivity. Qed.
Lemma gen_coords_shape : deferred_shape (kinds prog_gen_coords) = true.
Proof. vm_compute. reflexivity. Qed.
Lemma gen_seq_shape : direct_shape (kinds prog_gen_seq) = true.
Proof. vm_compute. reflexivity. Qed.

(* every crash point strictly before the flush (resp. before open) leaves the directory as it was *)
Lemma shape_first_visible_is_write prog :
  deferred_shape prog = true -> nth_error prog (first_visible prog) = Some Flush.
Proof.
  unfold deferred_shape. intros H. destruct (skipn (first_visible prog) prog) as [|x r] eqn:E; [discriminate|].
  destruct x; try discriminate.
  rewrite <- (firstn_skipn (first_visible prog) prog) at 1. rewrite E.
  rewrite nth_error_app2 by (rewrite firstn_length; lia).
  assert (Hl : first_visible prog <= length prog).
  { clear. induction prog as [|k r IH]; cbn; [lia|]. destruct (visible k); cbn; lia. }
  rewrite firstn_length, Nat.min_l by exact Hl. rewrite Nat.sub_diag. reflexivity.
Qed.

Example ex_first_visible : first_visible (kinds prog_gen_coords) = 29 /\ first_visible (kinds prog_gen_seq) = 7.
Proof. vm_compute. split; reflexivity. Qed.
