(* C09: lemmas about the bonded-type lookup model (model/TopTypes.v) and the translated
   C6/C12 -> sigma/epsilon conversion (Gen_topology_R). *)
From Coq Require Import ZArith String List Bool Arith Lia Reals Lra.
From PV Require Import TopTypes RNum Tproj Gen_topology_R.
Import ListNotations.
Close Scope R_scope.
Open Scope nat_scope.

(* ---- exact / reversed ---- *)
Lemma lookup_exact d atoms t ts : tget t atoms = Some ts -> lookup d atoms t = Some ts.
Proof. intros H. unfold lookup. rewrite H. reflexivity. Qed.
Lemma lookup_reversed d atoms t ts :
  tget t atoms = None -> tget t (rev atoms) = Some ts -> lookup d atoms t = Some ts.
Proof. intros H1 H2. unfold lookup. rewrite H1, H2. reflexivity. Qed.

(* ---- wildcards ---- *)
Lemma matches_rev k a : matches k (rev a) = matches k a.
Proof. unfold matches. rewrite rev_involutive. apply orb_comm. Qed.

Lemma best_rev atoms t : forall acc, best (rev atoms) t acc = best atoms t acc.
Proof.
  induction t as [|[k ts] r IH]; intros acc; cbn [best]; [reflexivity|].
  rewrite matches_rev. destruct (matches k atoms); [|apply IH].
  destruct acc as [[k0 bw]|]; [destruct (Nat.ltb (nwild k) bw)|]; apply IH.
Qed.

(* irrespective of the direction in which the atoms are listed *)
Theorem match_dih_direction_independent atoms t : match_dih (rev atoms) t = match_dih atoms t.
Proof. unfold match_dih. rewrite best_rev. reflexivity. Qed.

Theorem lookup_dih_direction_independent atoms t :
  tget t atoms = None -> tget t (rev atoms) = None ->
  lookup true (rev atoms) t = lookup true atoms t.
Proof.
  intros H1 H2. unfold lookup. rewrite rev_involutive, H1, H2, match_dih_direction_independent. reflexivity.
Qed.

Definition keys (t : table) : list key := map fst t.

Lemma best_spec atoms t : forall acc,
  (forall k0 w0, acc = Some (k0, w0) -> w0 = nwild k0 /\ matches k0 atoms = true) ->
  match best atoms t acc with
  | Some (k, w) =>
      w = nwild k /\ matches k atoms = true /\
      ((exists w0, acc = Some (k, w0)) \/ In k (keys t)) /\
      (forall k', In k' (keys t) -> matches k' atoms = true -> w <= nwild k') /\
      (forall k0 w0, acc = Some (k0, w0) -> w <= w0)
  | None => acc = None /\ forall k', In k' (keys t) -> matches k' atoms = false
  end.
Proof.
  induction t as [|[k ts] r IH]; intros acc Hacc; cbn [best keys map fst].
  - destruct acc as [[k0 w0]|].
    + destruct (Hacc _ _ eq_refl) as [H1 H2]. repeat split; auto.
      * left. eexists; reflexivity.
      * intros k' [].
      * intros k1 w1 E. injection E as <- <-. lia.
    + split; [reflexivity|]. intros k' [].
  - destruct (matches k atoms) eqn:Em.
    + assert (Hnew : forall k0 w0, Some (k, nwild k) = Some (k0, w0) -> w0 = nwild k0 /\ matches k0 atoms = true)
        by (intros k0 w0 E; injection E as <- <-; auto).
      destruct acc as [[k0 bw]|].
      * destruct (Hacc _ _ eq_refl) as [Hb1 Hb2].
        destruct (Nat.ltb (nwild k) bw) eqn:El.
        -- apply Nat.ltb_lt in El. specialize (IH _ Hnew).
           destruct (best atoms r (Some (k, nwild k))) as [[kb wb]|].
           ++ destruct IH as (I1 & I2 & I3 & I4 & I5). repeat split; auto.
              ** right. destruct I3 as [(w0 & E)|Hin]; [injection E as <- _; left; reflexivity|right; exact Hin].
              ** intros k' [<-|Hin] Hm; [apply (I5 _ _ eq_refl)|apply I4; assumption].
              ** intros k1 w1 E. injection E as <- <-. specialize (I5 _ _ eq_refl). lia.
           ++ destruct IH as [E _]. discriminate.
        -- apply Nat.ltb_ge in El. specialize (IH _ Hacc).
           destruct (best atoms r (Some (k0, bw))) as [[kb wb]|].
           ++ destruct IH as (I1 & I2 & I3 & I4 & I5).
              split; [exact I1|]. split; [exact I2|]. split; [|split].
              ** destruct I3 as [H|Hin]; [left; exact H|right; right; exact Hin].
              ** intros k' [<-|Hin] Hm; [specialize (I5 _ _ eq_refl); lia|apply I4; assumption].
              ** exact I5.
           ++ destruct IH as [E _]. discriminate.
      * specialize (IH _ Hnew). destruct (best atoms r (Some (k, nwild k))) as [[kb wb]|].
        -- destruct IH as (I1 & I2 & I3 & I4 & I5). repeat split; auto.
           ++ right. destruct I3 as [(w0 & E)|Hin]; [injection E as <- _; left; reflexivity|right; exact Hin].
           ++ intros k' [<-|Hin] Hm; [apply (I5 _ _ eq_refl)|apply I4; assumption].
           ++ intros k1 w1 E. discriminate.
        -- destruct IH as [E _]. discriminate.
    + specialize (IH _ Hacc). destruct (best atoms r acc) as [[kb wb]|].
      * destruct IH as (I1 & I2 & I3 & I4 & I5). repeat split; auto.
        -- destruct I3 as [H|Hin]; [left; exact H|right; right; exact Hin].
        -- intros k' [<-|Hin] Hm; [congruence|apply I4; assumption].
      * destruct IH as [E I]. split; [exact E|]. intros k' [<-|Hin]; [exact Em|apply I; exact Hin].
Qed.

(* the least-wildcarded matching type: the returned key is a table key matching the atoms in
   one of the two directions, and no matching table key has fewer wildcards; no key is
   returned only when no table key matches *)
Theorem match_dih_least_wildcards atoms t :
  match match_dih atoms t with
  | Some k => In k (keys t) /\ matches k atoms = true /\
              forall k', In k' (keys t) -> matches k' atoms = true -> nwild k <= nwild k'
  | None => forall k', In k' (keys t) -> matches k' atoms = false
  end.
Proof.
  unfold match_dih. pose proof (best_spec atoms t None) as H.
  destruct (best atoms t None) as [[k w]|].
  - destruct H as (H1 & H2 & H3 & H4 & _); [intros ? ? E; discriminate|].
    split; [destruct H3 as [(w0 & E)|Hin]; [discriminate|exact Hin]|]. split; [exact H2|].
    intros k' Hin Hm. rewrite <- H1. apply H4; assumption.
  - destruct H as [_ H]; [intros ? ? E; discriminate|]. exact H.
Qed.

(* ---- multi-term types: every instance ends with all terms, in table order ---- *)
Theorem multi_term_everywhere is_dih t i f ts :
  i_params i = [f] -> lookup is_dih (i_types i) t = Some ts -> ts <> [] ->
  instance_interactions is_dih t [i] =
    inl (map (fun tm => {| i_atoms := i_atoms i; i_types := i_types i; i_params := tm |}) ts).
Proof.
  intros Hp Hl Hne. unfold instance_interactions. cbn [resolve]. rewrite Hp, Hl.
  destruct ts as [|t0 more]; [contradiction|]. cbn [map app]. rewrite app_nil_r. reflexivity.
Qed.

Theorem with_parameters_untouched is_dih t i :
  length (i_params i) <> 1%nat -> instance_interactions is_dih t [i] = inl [i].
Proof.
  intros H. unfold instance_interactions. cbn [resolve].
  destruct (i_params i) as [|a [|b r]]; cbn in H; try reflexivity. contradiction.
Qed.

Theorem missing_type_rejected is_dih t i f :
  i_params i = [f] -> lookup is_dih (i_types i) t = None ->
  instance_interactions is_dih t [i] = inr (NoType (i_atoms i)).
Proof. intros Hp Hl. unfold instance_interactions. cbn [resolve]. rewrite Hp, Hl. reflexivity. Qed.

(* ---- #define substitution ---- *)
Theorem defines_substituted d p rest :
  subst_defines d (p :: rest) =
  (match dget d p with Some v => v | None => [p] end ++ subst_defines d rest)%list.
Proof. reflexivity. Qed.

(* ---- pair table ---- *)
Section PairLemmas.
  Context {num : Type}.
  Lemma pkey_sym (a b : string * string) : pkey_eqb a (snd b, fst b) = pkey_eqb a b.
  Proof. unfold pkey_eqb. cbn [fst snd]. apply orb_comm. Qed.
  Theorem pairs_symmetric (t : list ((string * string) * (num * num))) a b : pget t (a, b) = pget t (b, a).
  Proof.
    induction t as [|[k v] r IH]; cbn [pget]; [reflexivity|].
    change (b, a) with (snd (a, b), fst (a, b)). rewrite pkey_sym. rewrite IH. reflexivity.
  Qed.
  Lemma pget_app_some (t u : list ((string * string) * (num * num))) k v : pget t k = Some v -> pget (t ++ u) k = Some v.
  Proof. induction t as [|[k' v'] r IH]; cbn [pget app]; [discriminate|]. destruct (pkey_eqb k' k); auto. Qed.

  Variable comb : num -> num -> num -> num -> num * num.
  (* explicit nonbond_params override generated ones *)
  Theorem explicit_overrides_generated genpairs atypes explicit k v :
    pget explicit k = Some v -> pget (gen_pairs comb genpairs atypes explicit) k = Some v.
  Proof.
    intros H. unfold gen_pairs.
    assert (G1 : forall l acc, pget acc k = Some v ->
              pget (fold_left (fun acc xy => let '((a, (a1, a2)), (b, (b1, b2))) := xy in
                      match pget acc (a, b) with Some _ => acc | None => (acc ++ [((a, b), comb a1 b1 a2 b2)])%list end) l acc) k = Some v).
    { induction l as [|[[a [a1 a2]] [b [b1 b2]]] r IH]; intros acc Ha; cbn [fold_left]; [exact Ha|].
      apply IH. destruct (pget acc (a, b)); [exact Ha|apply pget_app_some; exact Ha]. }
    assert (G2 : forall l acc, pget acc k = Some v ->
              pget (fold_left (fun acc x => let '(a, v0) := x in
                      match pget acc (a, a) with Some _ => acc | None => (acc ++ [((a, a), v0)])%list end) l acc) k = Some v).
    { induction l as [|[a v0] r IH]; intros acc Ha; cbn [fold_left]; [exact Ha|].
      apply IH. destruct (pget acc (a, a)); [exact Ha|apply pget_app_some; exact Ha]. }
    apply G2. destruct genpairs; [apply G1; exact H|exact H].
  Qed.
End PairLemmas.

(* ---- (T) C6/C12 -> sigma/epsilon: the converted values reproduce the table ---- *)
Open Scope R_scope.
Theorem sig_eps_reproduce_c6_c12 c6 c12 r : 0 < c6 -> 0 < c12 ->
  r * r * r * r * r * r = c12 / c6 ->
  let sig := sig_of c6 c12 r in let eps := eps_of c6 c12 in
  4 * eps * (sig * sig * sig * sig * sig * sig) = c6 /\
  4 * eps * ((sig * sig * sig * sig * sig * sig) * (sig * sig * sig * sig * sig * sig)) = c12.
Proof.
  intros H6 H12 Hr. cbv zeta. unfold sig_of, eps_of, num in *. rewrite Hr. split; field; lra.
Qed.

Example ex_match :
  match_dih ["D"; "C"; "B"; "A"]%string [(["X"; "B"; "C"; "D"]%string, [["9"; "0"; "1"; "2"]%string]);
                                          (["X"; "B"; "C"; "X"]%string, [["9"; "180"; "5"; "1"]%string])]
  = Some ["X"; "B"; "C"; "D"]%string.
Proof. vm_compute. reflexivity. Qed.
