(* C04: coordinates consumed from the input structure are kept; only flagged residues are
   generated; engine slots under -ign. *)
From Coq Require Import String List Bool Arith Lia.
From PV Require Import Consume.
Import ListNotations.

Section Consume.
Variable P : Type.
Variable cog : list P -> P.
Notation consume := (consume cog).
Notation consume_res := (consume_res cog).

Lemma consume_res_used b skip r rest st rest' :
  consume_res b skip r rest = Some (st, rest') -> used st ++ rest' = rest.
Proof.
  unfold Consume.consume_res. destruct (skip (r_name r) || _) eqn:E.
  - intros H. injection H as <- <-. reflexivity.
  - destruct b; cbn [negb].
    + destruct (length rest <? r_natoms r); [discriminate|]. intros H. injection H as <- <-. cbn [used]. apply firstn_skipn.
    + destruct rest as [|p rest0]; [discriminate|]. intros H. injection H as <- <-. reflexivity.
Qed.

(* every coordinate handed out is the file's, in file order; none is skipped or used twice *)
Theorem consume_used_prefix b skip rs : forall rest sts rest',
  consume b skip rs rest = COk sts rest' -> concat (map used sts) ++ rest' = rest.
Proof.
  induction rs as [|r tl IH]; intros rest sts rest' H; cbn [Consume.consume] in H.
  - injection H as <- <-. reflexivity.
  - destruct (consume_res b skip r rest) as [[st rest1]|] eqn:E1; [|discriminate].
    destruct (consume b skip tl rest1) as [sts2 rest2|] eqn:E2; [|discriminate]. injection H as <- <-.
    cbn [map concat]. rewrite <- app_assoc, (IH _ _ _ E2). apply (consume_res_used _ _ _ _ _ _ E1).
Qed.

Theorem consume_length b skip rs : forall rest sts rest', consume b skip rs rest = COk sts rest' -> length sts = length rs.
Proof.
  induction rs as [|r tl IH]; intros rest sts rest' H; cbn [Consume.consume] in H.
  - injection H as <- _. reflexivity.
  - destruct (consume_res b skip r rest) as [[st rest1]|]; [|discriminate].
    destruct (consume b skip tl rest1) as [sts2 rest2|] eqn:E2; [|discriminate]. injection H as <- _.
    cbn [length]. rewrite (IH _ _ _ E2). reflexivity.
Qed.

(* a residue is flagged for building exactly when it is named for rebuilding or the file has
   no coordinate left; it then consumes nothing *)
Theorem build_flag_exact b skip r rest st rest' :
  consume_res b skip r rest = Some (st, rest') ->
  (st = RBuild <-> (skip (r_name r) = true \/ rest = [])) /\ (st = RBuild -> rest' = rest).
Proof.
  unfold Consume.consume_res. destruct (skip (r_name r) || _) eqn:E.
  - intros H. injection H as <- <-. split; [|reflexivity]. split; [|reflexivity]. intros _.
    apply orb_true_iff in E. destruct E as [E | E]; [left; exact E|right; destruct rest; [reflexivity|discriminate]].
  - apply orb_false_iff in E. destruct E as [E1 E2]. destruct b; cbn [negb].
    + destruct (length rest <? r_natoms r); [discriminate|]. intros H. injection H as <- <-. split; [|discriminate].
      split; [discriminate|]. intros [Hs | Hr]; [congruence|subst; discriminate].
    + destruct rest as [|p rest0]; [discriminate|]. intros H. injection H as <- <-. split; [|discriminate].
      split; [discriminate|]. intros [Hs | Hr]; [congruence|discriminate].
Qed.

(* kind of state per resolution *)
Theorem state_kind b skip r rest st rest' :
  consume_res b skip r rest = Some (st, rest') ->
  match st with
  | RBuild => True
  | RCentre p => b = false /\ exists tl, rest = p :: tl
  | RAtoms ps c => b = true /\ ps = firstn (r_natoms r) rest /\ length ps = r_natoms r /\ c = cog ps
  end.
Proof.
  unfold Consume.consume_res. destruct (skip (r_name r) || _).
  - intros H. injection H as <- _. exact I.
  - destruct b; cbn [negb].
    + destruct (Nat.ltb_spec (length rest) (r_natoms r)); [discriminate|]. intros H0. injection H0 as <- _.
      repeat split. apply firstn_length_le. assumption.
    + destruct rest as [|p rest0]; [discriminate|]. intros H. injection H as <- _. split; [reflexivity|]. exists rest0. reflexivity.
Qed.

(* the error case: molecule resolution, a residue only partly covered by the file *)
Theorem partial_residue_rejected skip r rest :
  skip (r_name r) = false -> rest <> [] -> length rest < r_natoms r -> consume_res true skip r rest = None.
Proof.
  intros Hs Hr Hl. unfold Consume.consume_res. rewrite Hs. destruct rest as [|p tl]; [contradiction|]. cbn [orb negb].
  destruct (Nat.ltb_spec (length (p :: tl)) (r_natoms r)); [reflexivity|lia].
Qed.

(* for every outcome of the random walk and of backmapping: supplied atoms keep their
   coordinates, centre-only residues are backmapped around exactly the supplied centre, and
   only RBuild residues take anything from the walk *)
Theorem supplied_preserved (walk walk' : nat -> P) (backmap backmap' : nat -> P -> list P) i st :
  match st with
  | RAtoms ps c => final_atoms walk backmap i st = ps /\ final_atoms walk' backmap' i st = ps /\ final_centre walk i st = c
  | RCentre p => final_centre walk i st = p /\ final_atoms walk backmap i st = backmap i p /\ final_centre walk' i st = p
  | RBuild => final_centre walk i st = walk i /\ final_atoms walk backmap i st = backmap i (walk i)
  end.
Proof. destruct st; cbn; repeat split. Qed.
End Consume.

(* ---- engine slots ---- *)
Lemma slot_of_filter ign l : forall k i m,
  slot_of (filter (fun p => negb (ign (snd p))) (enumerate_from k l)) i = Some m <->
  (k <= i /\ nth_error l (i - k) = Some m /\ ign m = false).
Proof.
  induction l as [|x r IH]; intros k i m; cbn [enumerate_from filter slot_of].
  - split; [discriminate|]. intros (_ & H & _). destruct (i - k); discriminate.
  - cbn [snd]. destruct (ign x) eqn:Ex; cbn [negb].
    + rewrite IH. split.
      * intros (Hk & Hn & Hi). split; [lia|]. split; [|exact Hi]. replace (i - k) with (S (i - S k)) by lia. exact Hn.
      * intros (Hk & Hn & Hi). destruct (Nat.eq_dec i k) as [-> | Hne].
        { rewrite Nat.sub_diag in Hn. cbn in Hn. injection Hn as ->. congruence. }
        split; [lia|]. split; [|exact Hi]. replace (i - k) with (S (i - S k)) in Hn by lia. exact Hn.
    + cbn [slot_of]. destruct (Nat.eqb_spec k i) as [-> | Hne].
      * rewrite Nat.sub_diag. cbn [nth_error]. split.
        { intros H. injection H as <-. repeat split; [lia|exact Ex]. }
        { intros (_ & H & _). exact H. }
      * rewrite IH. split.
        { intros (Hk & Hn & Hi). split; [lia|]. split; [|exact Hi]. replace (i - k) with (S (i - S k)) by lia. exact Hn. }
        { intros (Hk & Hn & Hi). split; [lia|]. split; [|exact Hi]. replace (i - k) with (S (i - S k)) in Hn by lia. exact Hn. }
Qed.

(* the engine has a slot under topology index i exactly for the non-ignored molecule at i:
   ignored molecules have no slot (cannot be moved or looked at), all others keep their index
   wherever the ignored ones stand *)
Theorem slots_exact ign mols i m :
  slot_of (slots ign mols) i = Some m <-> nth_error mols i = Some m /\ ign m = false.
Proof. unfold slots. rewrite slot_of_filter, Nat.sub_0_r. split; [intros (_ & H); exact H|intros H; split; [lia|exact H]]. Qed.

(* the numbering the code had before the repair (engine numbered along the filtered list)
   does not have this property *)
Lemma filtered_numbering_refuted :
  exists ign mols i m, nth_error mols i = Some m /\ ign m = false /\
    slot_of (enumerate_from 0 (filter (fun x => negb (ign x)) mols)) i <> Some m.
Proof.
  exists (fun x => String.eqb x "W"), ["W"; "P"]%string, 1, "P"%string. repeat split. cbn. discriminate.
Qed.

Example ex_consume :
  consume (fun l => hd 0 l) true (fun n => String.eqb n "B")
    [{| r_name := "A"; r_natoms := 2 |}; {| r_name := "B"; r_natoms := 1 |}; {| r_name := "A"; r_natoms := 1 |}; {| r_name := "A"; r_natoms := 3 |}]%string
    [10; 11; 12] = COk [RAtoms [10; 11] 10; RBuild; RAtoms [12] 12; RBuild] [].
Proof. vm_compute. reflexivity. Qed.
