(* C16: invariants of the neighbour-engine model (model/Engine.v). *)
From Coq Require Import Arith List Bool Lia Permutation.
From PV Require Import Engine.
Import ListNotations.

Section Proofs.
  Context {V : Type}.
  Variable thr : nat.
  Notation eng := (eng V).
  Notation op := (op V).

  (* ---- rows ---- *)
  Lemma set_nth_length g x (l : list (option V)) : length (set_nth g x l) = length l.
  Proof. revert g; induction l as [|y r IH]; intros [|g]; cbn; auto. Qed.

  Lemma row_set_same g x (l : list (option V)) : g < length l -> row (set_nth g x l) g = x.
  Proof.
    unfold row. revert g; induction l as [|y r IH]; intros [|g] H; cbn in *; try lia; auto.
    apply IH; lia.
  Qed.

  Lemma row_set_other g h x (l : list (option V)) : g <> h -> row (set_nth g x l) h = row l h.
  Proof.
    unfold row. revert g h; induction l as [|y r IH]; intros [|g] [|h] H; cbn; try reflexivity; try lia.
    apply IH; lia.
  Qed.

  Lemma row_beyond (l : list (option V)) g : length l <= g -> row l g = None.
  Proof. unfold row. intros; apply nth_overflow; assumption. Qed.

  (* ---- lists ---- *)
  Lemma NoDup_app_iff {A} (a b : list A) :
    NoDup (a ++ b) <-> NoDup a /\ NoDup b /\ (forall x, In x a -> ~ In x b).
  Proof.
    induction a as [|x a IH]; cbn.
    - split; [intros H; repeat split; [constructor|exact H|intros ? []]|intros (_ & H & _); exact H].
    - split.
      + intros H. inversion H as [|? ? Hx Hr]; subst. apply IH in Hr. destruct Hr as (Ha & Hb & Hd).
        repeat split.
        * constructor; [intros Hin; apply Hx; apply in_or_app; left; exact Hin|exact Ha].
        * exact Hb.
        * intros y [->|Hy]; [intros Hin; apply Hx; apply in_or_app; right; exact Hin|apply Hd; exact Hy].
      + intros (Ha & Hb & Hd). inversion Ha as [|? ? Hx Hr]; subst. constructor.
        * intros Hin. apply in_app_or in Hin. destruct Hin as [Hin|Hin]; [contradiction|].
          apply (Hd x); [left; reflexivity|exact Hin].
        * apply IH. repeat split; [exact Hr|exact Hb|intros y Hy; apply Hd; right; exact Hy].
  Qed.

  Lemma remove_first_in g l x : In x (remove_first g l) -> In x l.
  Proof.
    induction l as [|y r IH]; cbn; [auto|].
    destruct (y =? g); [auto|]. intros [->|H]; auto.
  Qed.

  Lemma remove_first_spec g l x : NoDup l -> (In x (remove_first g l) <-> In x l /\ x <> g).
  Proof.
    induction l as [|y r IH]; intros ND; cbn; [tauto|].
    inversion ND as [|? ? Hy Hr]; subst.
    destruct (y =? g) eqn:E.
    - apply Nat.eqb_eq in E; subst. split.
      + intros H. split; [right; exact H|]. intros ->. contradiction.
      + intros [[->|H] Hne]; [contradiction|exact H].
    - apply Nat.eqb_neq in E. cbn. rewrite (IH Hr). split.
      + intros [->|[H Hne]]; split; auto.
      + intros [[->|H] Hne]; auto.
  Qed.

  Lemma remove_first_nodup g l : NoDup l -> NoDup (remove_first g l).
  Proof.
    induction l as [|y r IH]; intros ND; cbn; [constructor|].
    inversion ND as [|? ? Hy Hr]; subst. destruct (y =? g); [exact Hr|].
    constructor; [intros H; apply Hy; eapply remove_first_in; exact H|auto].
  Qed.

  Lemma concat_remove_spec g ls x :
    NoDup (concat ls) ->
    (In x (concat (map (remove_first g) ls)) <-> In x (concat ls) /\ x <> g).
  Proof.
    induction ls as [|l r IH]; intros ND; cbn; [tauto|].
    cbn in ND. apply NoDup_app_iff in ND. destruct ND as (Hl & Hr & _).
    rewrite !in_app_iff, (remove_first_spec g l x Hl), (IH Hr). tauto.
  Qed.

  Lemma concat_remove_nodup g ls : NoDup (concat ls) -> NoDup (concat (map (remove_first g) ls)).
  Proof.
    induction ls as [|l r IH]; intros ND; cbn; [constructor|].
    cbn in ND. pose proof ND as ND0. apply NoDup_app_iff in ND. destruct ND as (Hl & Hr & Hd).
    apply NoDup_app_iff. repeat split.
    - apply remove_first_nodup; exact Hl.
    - apply IH; exact Hr.
    - intros x Hx Hx'. apply (concat_remove_spec g r x Hr) in Hx'. destruct Hx' as [Hx' _].
      apply (Hd x); [eapply remove_first_in; exact Hx|exact Hx'].
  Qed.

  (* ---- the invariant: the index lists hold exactly the positioned rows, each once ---- *)
  Definition Inv (s : eng) : Prop :=
    NoDup (concat (e_lists s)) /\
    (forall g, In g (concat (e_lists s)) <-> definedb (e_pos s) g = true).

  Lemma defined_indices_spec (pos : list (option V)) g :
    In g (defined_indices pos) <-> definedb pos g = true.
  Proof.
    unfold defined_indices. rewrite filter_In, in_seq. split; [tauto|].
    intros H. split; [|exact H]. split; [lia|]. cbn.
    destruct (lt_dec g (length pos)) as [Hl|Hl]; [exact Hl|].
    unfold definedb in H. rewrite row_beyond in H by lia. discriminate.
  Qed.

  Lemma init_inv pos : Inv (init pos).
  Proof.
    unfold Inv, init; cbn [e_lists e_pos concat]. rewrite app_nil_r. split.
    - apply NoDup_filter, seq_NoDup.
    - intros g. apply defined_indices_spec.
  Qed.

  Lemma definedb_set_some g (p : V) pos h : g < length pos ->
    definedb (set_nth g (Some p) pos) h = if h =? g then true else definedb pos h.
  Proof.
    intros Hg. unfold definedb. destruct (h =? g) eqn:E.
    - apply Nat.eqb_eq in E; subst. rewrite row_set_same by exact Hg. reflexivity.
    - apply Nat.eqb_neq in E. rewrite row_set_other by congruence. reflexivity.
  Qed.

  Lemma definedb_set_none g (pos : list (option V)) h :
    definedb (set_nth g None pos) h = if h =? g then false else definedb pos h.
  Proof.
    unfold definedb. destruct (h =? g) eqn:E.
    - apply Nat.eqb_eq in E; subst. destruct (lt_dec g (length pos)) as [Hl|Hl].
      + rewrite row_set_same by exact Hl. reflexivity.
      + rewrite row_beyond; [reflexivity|]. rewrite set_nth_length. lia.
    - apply Nat.eqb_neq in E. rewrite row_set_other by congruence. reflexivity.
  Qed.

  Lemma add_inv start g p s :
    Inv s -> g < length (e_pos s) -> definedb (e_pos s) g = false -> Inv (add thr start g p s).
  Proof.
    intros (ND & HI) Hg Hu. unfold add.
    assert (Hnot : ~ In g (concat (e_lists s))) by (rewrite HI, Hu; discriminate).
    destruct (e_lists s) as [|cur older] eqn:El.
    - unfold Inv; cbn [e_lists e_pos concat app]. split; [repeat constructor; intros []|].
      intros h. rewrite definedb_set_some by exact Hg. cbn in HI. specialize (HI h).
      destruct (h =? g) eqn:E.
      + apply Nat.eqb_eq in E; subst. cbn; tauto.
      + apply Nat.eqb_neq in E. cbn. split; [intros [->|[]]; congruence|intros H; apply HI in H; destruct H].
    - destruct (start && (thr <? length cur)); unfold Inv; cbn [e_lists e_pos concat app] in *.
      + split.
        * constructor; [exact Hnot|exact ND].
        * intros h. rewrite definedb_set_some by exact Hg. specialize (HI h).
          destruct (h =? g) eqn:E.
          -- apply Nat.eqb_eq in E; subst. split; [reflexivity|left; reflexivity].
          -- apply Nat.eqb_neq in E. split; [intros [->|H]; [congruence|apply HI; exact H]|intros H; right; apply HI; exact H].
      + split.
        * rewrite <- app_assoc. apply NoDup_app_iff in ND. destruct ND as (Hc & Ho & Hd).
          rewrite in_app_iff in Hnot.
          apply NoDup_app_iff. repeat split; [exact Hc| |].
          -- cbn. constructor; [tauto|exact Ho].
          -- intros x Hx [->|Hx']; [tauto|apply (Hd x); assumption].
        * intros h. rewrite definedb_set_some by exact Hg. specialize (HI h).
          rewrite !in_app_iff in *. cbn [In].
          destruct (h =? g) eqn:E.
          -- apply Nat.eqb_eq in E; subst. split; [reflexivity|tauto].
          -- apply Nat.eqb_neq in E. split; [intros [[H|[->|[]]]|H]; try congruence; apply HI; tauto|intros H; apply HI in H; tauto].
  Qed.

  Lemma remove1_inv s g : Inv s -> Inv (remove1 s g).
  Proof.
    intros (ND & HI). unfold remove1. destruct (definedb (e_pos s) g) eqn:Ed; [|split; assumption].
    unfold Inv; cbn [e_lists e_pos]. split.
    - apply concat_remove_nodup; exact ND.
    - intros h. rewrite (concat_remove_spec g _ h ND), definedb_set_none, HI.
      destruct (h =? g) eqn:E.
      + apply Nat.eqb_eq in E; subst. split; [tauto|discriminate].
      + apply Nat.eqb_neq in E. tauto.
  Qed.

  Lemma remove_inv gs s : Inv s -> Inv (remove gs s).
  Proof. unfold remove. revert s; induction gs as [|g r IH]; intros s H; cbn [fold_left]; [exact H|]. apply IH, remove1_inv, H. Qed.

  Lemma concat_inv s : Inv (concat_trees s).
  Proof. apply init_inv. Qed.

  Lemma step_inv s o : Inv s -> op_ok s o = true -> Inv (step thr s o).
  Proof.
    intros H Hok. destruct o as [st g p|gs|]; cbn [step].
    - cbn [op_ok] in Hok. apply andb_true_iff in Hok. destruct Hok as [H1 H2].
      apply Nat.ltb_lt in H1. apply negb_true_iff in H2. apply add_inv; assumption.
    - apply remove_inv; exact H.
    - apply concat_inv.
  Qed.

  (* every state reachable from any initial position table by guarded histories *)
  Theorem inv_reachable pos ops s : run thr (init pos) ops = Some s -> Inv s.
  Proof.
    assert (G : forall s0, Inv s0 -> run thr s0 ops = Some s -> Inv s).
    { induction ops as [|o r IH]; intros s0 H0 H; cbn [run] in H.
      - injection H as <-. exact H0.
      - destruct (op_ok s0 o) eqn:Hok; [|discriminate]. eapply IH; [|exact H]. apply step_inv; assumption. }
    apply G, init_inv.
  Qed.

  (* ---- position queries: refinement to the abstract map "last write wins" ---- *)
  Definition abs_step (pos : list (option V)) (o : op) : list (option V) :=
    match o with
    | Add _ g p => set_nth g (Some p) pos
    | Remove gs => fold_left (fun q g => set_nth g None q) gs pos
    | Concat => pos
    end.

  Lemma remove_pos gs (s : eng) : e_pos (remove gs s) = fold_left (fun q g => set_nth g None q) gs (e_pos s).
  Proof.
    unfold remove. revert s; induction gs as [|g r IH]; intros s; cbn [fold_left]; [reflexivity|].
    rewrite IH. f_equal. unfold remove1. destruct (definedb (e_pos s) g) eqn:E; cbn [e_pos]; [reflexivity|].
    (* clearing an undefined row changes nothing *)
    unfold definedb in E. clear IH. generalize dependent g. generalize (e_pos s) as l.
    induction l as [|y l IH]; intros [|g] E; cbn in *; try reflexivity.
    - unfold row in E; cbn in E. destruct y; [discriminate|reflexivity].
    - f_equal. apply IH. exact E.
  Qed.

  Lemma step_pos (s : eng) o : e_pos (step thr s o) = abs_step (e_pos s) o.
  Proof.
    destruct o as [st g p|gs|]; cbn [step abs_step].
    - unfold add. destruct (e_lists s) as [|c o]; [reflexivity|]. destruct (st && (thr <? length c)); reflexivity.
    - apply remove_pos.
    - reflexivity.
  Qed.

  Theorem get_last_write pos ops s :
    run thr (init pos) ops = Some s -> e_pos s = fold_left abs_step ops pos.
  Proof.
    assert (G : forall s0, run thr s0 ops = Some s -> e_pos s = fold_left abs_step ops (e_pos s0)).
    { induction ops as [|o r IH]; intros s0 H; cbn [run fold_left] in *.
      - injection H as <-. reflexivity.
      - destruct (op_ok s0 o); [|discriminate]. rewrite (IH _ H), step_pos. reflexivity. }
    apply G.
  Qed.

  (* ---- force queries: exactly the currently positioned residues within the cut-off ---- *)
  Variable within : V -> V -> bool.
  Variable tooclose : V -> V -> bool.

  Lemma hits_spec s p g : Inv s ->
    (In g (hits within s p) <-> exists q, row (e_pos s) g = Some q /\ within p q = true).
  Proof.
    intros (ND & HI). unfold hits. rewrite in_flat_map. split.
    - intros (l & Hl & Hg). apply filter_In in Hg. destruct Hg as [_ Hh]. unfold hit in Hh.
      destruct (row (e_pos s) g) as [q|]; [exists q; auto|discriminate].
    - intros (q & Hq & Hw).
      assert (Hin : In g (concat (e_lists s))) by (apply HI; unfold definedb; rewrite Hq; reflexivity).
      apply in_concat in Hin. destruct Hin as (l & Hl & Hg). exists l. split; [exact Hl|].
      apply filter_In. split; [exact Hg|]. unfold hit. rewrite Hq. exact Hw.
  Qed.

  Lemma NoDup_flat_map_filter (f : nat -> bool) ls :
    NoDup (concat ls) -> NoDup (flat_map (fun l => filter f l) ls).
  Proof.
    induction ls as [|l r IH]; intros ND; cbn; [constructor|].
    cbn in ND. apply NoDup_app_iff in ND. destruct ND as (Hl & Hr & Hd).
    apply NoDup_app_iff. repeat split.
    - apply NoDup_filter; exact Hl.
    - apply IH; exact Hr.
    - intros x Hx Hx'. apply filter_In in Hx. destruct Hx as [Hx _].
      apply in_flat_map in Hx'. destruct Hx' as (l' & Hl' & Hx'). apply filter_In in Hx'. destruct Hx' as [Hx' _].
      apply (Hd x Hx). apply in_concat. exists l'. auto.
  Qed.

  Theorem force_scope_exact s p excl : Inv s ->
    match force within tooclose s p excl with
    | FInf => exists g q, row (e_pos s) g = Some q /\ within p q = true /\ tooclose p q = true
    | FSum cs =>
        NoDup cs /\
        (forall g, In g cs <-> (exists q, row (e_pos s) g = Some q /\ within p q = true) /\ ~ In g excl) /\
        (forall g q, row (e_pos s) g = Some q -> within p q = true -> tooclose p q = false)
    end.
  Proof.
    intros HInv. unfold force.
    destruct (existsb _ (hits within s p)) eqn:Ex.
    - apply existsb_exists in Ex. destruct Ex as (g & Hg & Ht).
      apply (hits_spec s p g HInv) in Hg. destruct Hg as (q & Hq & Hw). rewrite Hq in Ht. eauto.
    - repeat split.
      + apply NoDup_filter, NoDup_flat_map_filter. exact (proj1 HInv).
      + apply filter_In in H. destruct H as [H _]. apply (hits_spec s p g HInv); exact H.
      + apply filter_In in H. destruct H as [_ H]. apply negb_true_iff in H. intros Hin.
        assert (existsb (Nat.eqb g) excl = true) by (apply existsb_exists; exists g; split; [exact Hin|apply Nat.eqb_refl]).
        congruence.
      + intros [Hh Hne]. apply filter_In. split; [apply (hits_spec s p g HInv); exact Hh|].
        apply negb_true_iff. destruct (existsb (Nat.eqb g) excl) eqn:E; [|reflexivity].
        apply existsb_exists in E. destruct E as (x & Hx & Hxe). apply Nat.eqb_eq in Hxe; subst. contradiction.
      + intros g q Hq Hw. destruct (tooclose p q) eqn:Et; [|reflexivity].
        assert (Hin : In g (hits within s p)) by (apply (hits_spec s p g HInv); eauto).
        rewrite <- not_true_iff_false in Ex. exfalso. apply Ex. apply existsb_exists. exists g.
        split; [exact Hin|]. rewrite Hq. exact Et.
  Qed.
End Proofs.

Example ex_history :
  exists s, run 1 (init [Some 1; None; None; None])
              [Add true 1 5; Add true 2 6; Remove [1; 0]; Add false 0 7; Concat; Remove [2]] = Some s
            /\ e_pos s = [Some 7; None; None; None] /\ e_lists s = [[0]].
Proof. eexists. vm_compute. repeat split. Qed.
