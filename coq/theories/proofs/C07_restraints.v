(* C07: the distance-restraint entries computed by the model of set_distance_restraint,
   instantiated with the bound formulas translated from restraints.py. *)
From Coq Require Import Reals Lra ZArith List Bool Lia.
From PV Require Import RNum Tproj Restraints Gen_restraints_R C07_kernels.
Import ListNotations.

Definition entriesR := @entries R INR 1%R upper_bound avg_needed_step_length lower_bound.

Lemma entries_last pre tgt ref avg d tol n1 : forall i,
  (i + length pre = n1)%nat -> n1 <> 0%nat ->
  In (tgt, (ref, upper_bound 1 avg d tol, lower_bound (avg_needed_step_length d (INR n1)) tol (INR n1)))
     (entriesR (pre ++ [tgt]) i n1 ref avg d tol).
Proof.
  induction pre as [|x r IH]; intros i Hi Hn; cbn [app entriesR entries].
  - cbn [length] in Hi. replace i with n1 by lia. unfold entriesR. cbn [entries].
    destruct (Nat.eqb n1 0) eqn:E0; [apply Nat.eqb_eq in E0; contradiction|].
    rewrite Nat.eqb_refl. left. reflexivity.
  - unfold entriesR in *. cbn [entries]. cbn [length] in Hi.
    destruct (Nat.eqb i 0); [apply IH; lia|]. right. apply IH; lia.
Qed.

(* the restrained residue (end of the tree path) carries the window [d - tol, d + tol + avg] *)
Theorem target_entry_window ref mids tgt avg d tol :
  let path := ref :: mids ++ [tgt] in
  In (tgt, (ref, d + tol + avg, d - tol))%R (entriesR path 0 (length path - 1) ref avg d tol).
Proof.
  cbv zeta. set (n1 := (length (ref :: mids ++ [tgt]) - 1)%nat).
  assert (Hn : n1 = S (length mids)) by (subst n1; cbn [length]; rewrite app_length; cbn; lia).
  assert (Hg : INR n1 <> 0%R) by (rewrite Hn; apply not_0_INR; lia).
  destruct (target_window avg d tol (INR n1) Hg) as [E1 E2]. rewrite <- E1, <- E2.
  change (ref :: mids ++ [tgt]) with ((ref :: mids) ++ [tgt]).
  apply entries_last; [cbn [length]; lia|lia].
Qed.

(* every entry names the reference residue of the (oriented) restraint *)
Lemma entries_ref path ref avg d tol n1 : forall i e,
  In e (entriesR path i n1 ref avg d tol) -> fst (fst (snd e)) = ref /\ In (fst e) path.
Proof.
  induction path as [|x r IH]; intros i e H; unfold entriesR in *; cbn [entries] in H; [destruct H|].
  destruct (Nat.eqb i 0).
  - destruct (IH _ _ H) as [H1 H2]. split; [exact H1|right; exact H2].
  - destruct H as [<-|H]; [split; [reflexivity|left; reflexivity]|].
    destruct (IH _ _ H) as [H1 H2]. split; [exact H1|right; exact H2].
Qed.
