(* C05: no generated residue is closer than the floor to another positioned residue.
   Engine model (model/Engine.v) + the acceptance test of update_positions: a position is
   added only after compute_force_point did not return "infinite". *)
From Coq Require Import Arith List Bool Lia.
From PV Require Import Engine C16_engine.
Import ListNotations.

Section Clear.
  Context {V : Type}.
  Variable thr : nat.
  Variable within tooclose : V -> V -> bool.
  Hypothesis within_sym : forall p q, within p q = within q p.
  Hypothesis tooclose_sym : forall p q, tooclose p q = tooclose q p.
  Notation eng := (eng V).

  (* the floor part of the overlap test for a candidate point *)
  Definition floor_clear (s : eng) (p : V) : bool :=
    match force within tooclose s p [] with FInf => false | FSum _ => true end.

  (* histories in which every added position passed the test on the state it was added to *)
  Fixpoint run_checked (s : eng) (ops : list (op V)) : option eng :=
    match ops with
    | [] => Some s
    | o :: r =>
      if op_ok s o && (match o with Add _ _ p => floor_clear s p | _ => true end)
      then run_checked (step thr s o) r else None
    end.

  (* g was generated (added) during the history and is still positioned, or was there before *)
  Definition PairClear (s : eng) (fresh : nat -> Prop) : Prop :=
    forall g h p q, g <> h -> fresh g ->
      row (e_pos s) g = Some p -> row (e_pos s) h = Some q -> within p q = true -> tooclose p q = false.

  Lemma floor_clear_spec s p : Inv s -> floor_clear s p = true ->
    forall h q, row (e_pos s) h = Some q -> within p q = true -> tooclose p q = false.
  Proof.
    intros HI Hc. unfold floor_clear in Hc.
    pose proof (force_scope_exact within tooclose s p [] HI) as H.
    destruct (force within tooclose s p []) as [|cs]; [discriminate|].
    destruct H as (_ & _ & H). exact H.
  Qed.

  Lemma row_step_remove gs (s : eng) g (p : V) :
    row (e_pos (remove gs s)) g = Some p -> row (e_pos s) g = Some p.
  Proof.
    rewrite remove_pos. generalize (e_pos s) as l.
    induction gs as [|x r IH]; intros l; cbn [fold_left]; [auto|].
    intros H. apply IH in H. destruct (Nat.eq_dec x g) as [->|Hne].
    - destruct (lt_dec g (length l)) as [Hl|Hl].
      + rewrite row_set_same in H by exact Hl. discriminate.
      + rewrite row_beyond in H; [discriminate|]. rewrite set_nth_length. lia.
    - rewrite row_set_other in H by exact Hne. exact H.
  Qed.

  Theorem checked_history_pairwise_clear ops : forall s fresh s',
    Inv s -> PairClear s fresh -> run_checked s ops = Some s' ->
    exists fresh' : nat -> Prop, (forall g, fresh g -> fresh' g) /\ PairClear s' fresh' /\
      (forall g p, row (e_pos s') g = Some p -> row (e_pos s) g <> Some p -> fresh' g).
  Proof.
    induction ops as [|o r IH]; intros s fresh s' HI HP H; cbn [run_checked] in H.
    - injection H as <-. exists fresh. split; [auto|]. split; [exact HP|]. intros g p H1 H2. contradiction.
    - destruct (op_ok s o) eqn:Hok; cbn [andb] in H; [|discriminate].
      destruct o as [st g0 p0|gs|].
      + destruct (floor_clear s p0) eqn:Hc; [|discriminate].
        cbn [op_ok] in Hok. apply andb_true_iff in Hok. destruct Hok as [Hlt Hun].
        apply Nat.ltb_lt in Hlt. apply negb_true_iff in Hun.
        pose proof (floor_clear_spec s p0 HI Hc) as Hfc.
        assert (HI' : Inv (step thr s (Add st g0 p0))) by (apply step_inv; [exact HI|cbn [op_ok]; rewrite Hun; apply andb_true_iff; split; [apply Nat.ltb_lt; exact Hlt|reflexivity]]).
        assert (Hrow : forall h, row (e_pos (step thr s (Add st g0 p0))) h = if h =? g0 then Some p0 else row (e_pos s) h).
        { intros h. rewrite step_pos. cbn [abs_step]. destruct (h =? g0) eqn:E.
          - apply Nat.eqb_eq in E; subst. apply row_set_same; exact Hlt.
          - apply Nat.eqb_neq in E. apply row_set_other. congruence. }
        set (fresh1 := fun g => fresh g \/ g = g0).
        assert (HP1 : PairClear (step thr s (Add st g0 p0)) fresh1).
        { intros g h p q Hne Hf Hg Hh Hw. rewrite Hrow in Hg, Hh.
          destruct (g =? g0) eqn:Eg; destruct (h =? g0) eqn:Eh; cbv iota in Hg, Hh.
          - apply Nat.eqb_eq in Eg, Eh. congruence.
          - injection Hg as <-. exact (Hfc h q Hh Hw).
          - injection Hh as <-. rewrite tooclose_sym. rewrite within_sym in Hw. exact (Hfc g p Hg Hw).
          - apply Nat.eqb_neq in Eg. destruct Hf as [Hf|Hf]; [|contradiction]. exact (HP g h p q Hne Hf Hg Hh Hw). }
        destruct (IH _ fresh1 s' HI' HP1 H) as (fresh' & Hsub & HP' & Hnew).
        exists fresh'. split; [intros g Hg; apply Hsub; left; exact Hg|]. split; [exact HP'|].
        intros g p Hg Hng. destruct (Nat.eq_dec g g0) as [->|Hne].
        * apply Hsub. right; reflexivity.
        * apply (Hnew g p Hg). rewrite Hrow. apply Nat.eqb_neq in Hne. rewrite Hne. exact Hng.
      + assert (HI' : Inv (step thr s (Remove gs))) by (apply step_inv; [exact HI|reflexivity]).
        assert (HP1 : PairClear (step thr s (Remove gs)) fresh).
        { intros g h p q Hne Hf Hg Hh Hw. cbn [step] in Hg, Hh. apply row_step_remove in Hg, Hh. exact (HP g h p q Hne Hf Hg Hh Hw). }
        destruct (IH _ fresh s' HI' HP1 H) as (fresh' & Hsub & HP' & Hnew).
        exists fresh'. split; [exact Hsub|]. split; [exact HP'|].
        intros g p Hg Hng. apply (Hnew g p Hg). intros Hr. cbn [step] in Hr. apply row_step_remove in Hr. contradiction.
      + assert (HI' : Inv (step thr s Concat)) by (apply step_inv; [exact HI|reflexivity]).
        destruct (IH _ fresh s' HI' HP H) as (fresh' & Hsub & HP' & Hnew).
        exists fresh'. split; [exact Hsub|]. split; [exact HP'|]. exact Hnew.
  Qed.
End Clear.
