(* Hand-written executable model of restraints.set_distance_restraint (path orientation on the
   search tree, per-node bounds) and of RandomWalk.checks_milestones, generic in the number
   type; the three bound formulas are parameters instantiated with the translated text
   (Gen_restraints) over R for theorems and over PrimFloat for evaluation. *)
From Coq Require Import ZArith List Bool.
Import ListNotations.
Open Scope Z_scope.

Section Restraints.
  Context {num : Type}.
  Variable of_nat : nat -> num.
  Variable one : num.
  Variable upper_bound : num -> num -> num -> num -> num.       (* graph_distance avg distance tol *)
  Variable avg_needed : num -> num -> num.                      (* distance gd_target[ref] *)
  Variable lower_bound : num -> num -> num -> num.              (* avg_needed tol gd_ref[node] *)

  (* search tree as child -> parent (nx.DiGraph predecessors) *)
  Fixpoint parent_of (t : list (Z * Z)) (n : Z) : option Z :=
    match t with
    | [] => None
    | (p, c) :: r => if c =? n then Some p else parent_of r n
    end.

  (* get_all_predecessors(tree, node, start): [start; ...; node]; None = start is no ancestor *)
  Fixpoint preds (fuel : nat) (t : list (Z * Z)) (node start : Z) (acc : list Z) : option (list Z) :=
    match fuel with
    | O => None
    | S f =>
      match parent_of t node with
      | None => None
      | Some p => if p =? start then Some (p :: node :: acc) else preds f t p start (node :: acc)
      end
    end.

  Inductive rerr := NotOnOnePath.
  (* lowest common ancestor = target => swap; = ref => keep; else OSError *)
  Definition orient (t : list (Z * Z)) (target ref : Z) : option (Z * Z * list Z) :=
    let fuel := S (length t) in
    match preds fuel t target ref [] with
    | Some path => Some (target, ref, path)
    | None =>
      match preds fuel t ref target [] with
      | Some path => Some (ref, target, path)
      | None => None
      end
    end.

  (* the loop over the path: entries (node, (ref, upper, lower)) appended to the node's list *)
  Fixpoint entries (path : list Z) (i : nat) (n1 : nat) (ref : Z) (avg d tol : num)
    : list (Z * (Z * num * num)) :=
    match path with
    | [] => []
    | node :: rest =>
      let tail := entries rest (S i) n1 ref avg d tol in
      if Nat.eqb i 0 then tail           (* node == ref_node: continue *)
      else
        let gd := if Nat.eqb i n1 then one else of_nat (n1 - i) in
        (node, (ref, upper_bound gd avg d tol, lower_bound (avg_needed d (of_nat n1)) tol (of_nat i))) :: tail
    end.

  Definition set_distance_restraint (t : list (Z * Z)) (target ref : Z) (avg d tol : num)
    : option (list (Z * (Z * num * num))) :=
    match orient t target ref with
    | None => None
    | Some (target', ref', path) => Some (entries path 0 (length path - 1) ref' avg d tol)
    end.

  (* checks_milestones for one restraint entry *)
  Variable gtb ltb : num -> num -> bool.
  Definition milestone_ok (dist ub lb : num) : bool := negb (gtb dist ub) && negb (ltb dist lb).
End Restraints.
