(* Hand-written executable model of RandomWalk._random_walk / _rewind
   (polyply/src/random_walk.py:251-256, 404-433) and of BuildSystem._handle_random_walk
   (polyply/src/build_system.py:166-189).  The outcome of every update_positions call
   (placement accepted or not) is an ORACLE stream: theorems hold for every stream.
   `positioned` is the set of residues of this molecule that currently have a row in the
   neighbour engine (model/Engine.v relates rows to add/remove). *)
From Coq Require Import Arith ZArith List Bool Lia.
Import ListNotations.

Section Walk.
  Variable path : list (Z * Z).          (* list(search_tree.edges): (prev, current) *)
  Variable build : Z -> bool.            (* node attribute "build" *)
  Variable nrewind maxiter : nat.

  Record wst := { w_pos : list Z; w_placed : list (nat * Z); w_step : nat; w_count : nat;
                  w_success : bool }.

  Definition remove_nodes (rm : list Z) (l : list Z) : list Z :=
    filter (fun n => negb (existsb (Z.eqb n) rm)) l.

  (* python slices on placed_nodes *)
  Definition slice_from {A} (l : list A) (k : nat) : list A := skipn (length l - k) l.   (* l[-k:] *)
  Definition drop_last {A} (l : list A) : list A := removelast l.                        (* l[:-1] *)
  Definition prefix_to {A} (l : list A) (k : nat) : list A := firstn (length l - k) l.   (* l[:-k] *)

  (* _rewind, for nrewind >= 1: returns (new positions, new placed list, new step counter) *)
  Definition rewind (pos : list Z) (placed : list (nat * Z)) : list Z * list (nat * Z) * nat :=
    let tail := slice_from placed nrewind in
    let nodes := map snd (drop_last tail) in
    let step := match tail with (s, _) :: _ => s | [] => 0 end in
    (remove_nodes nodes pos, prefix_to placed nrewind, step).

  (* Crashed: update_positions was asked to grow from a residue without a position
     (the real code then steps from an undefined point) *)
  Inductive res := Running (s : wst) | Finished (s : wst) | Crashed (s : wst) | OutOfFuel.

  (* one iteration of the while loop that calls update_positions; ok = its outcome *)
  Definition iter (s : wst) (prev cur : Z) (ok : bool) : res :=
    if negb (existsb (Z.eqb prev) (w_pos s)) then Crashed s else
    let pos1 := if ok then cur :: w_pos s else w_pos s in
    let placed1 := w_placed s ++ [(w_step s, cur)] in
    if ok then
      Running {| w_pos := pos1; w_placed := placed1; w_step := S (w_step s); w_count := 1; w_success := true |}
    else if w_count s <? maxiter then
      if length placed1 <? nrewind + 1 then
        Finished {| w_pos := pos1; w_placed := placed1; w_step := w_step s; w_count := w_count s; w_success := false |}
      else
        let '(pos2, placed2, step2) := rewind pos1 placed1 in
        Running {| w_pos := pos2; w_placed := placed2; w_step := step2; w_count := S (w_count s); w_success := false |}
    else
      Finished {| w_pos := pos1; w_placed := placed1; w_step := w_step s; w_count := w_count s; w_success := false |}.

  (* the while loop; the oracle is consumed only at buildable steps *)
  Fixpoint loop (fuel : nat) (oracle : list bool) (s : wst) : res :=
    match fuel with
    | O => OutOfFuel
    | S f =>
      match nth_error path (w_step s) with
      | None => Finished s
      | Some (prev, cur) =>
        if negb (build cur) then
          loop f oracle {| w_pos := w_pos s; w_placed := w_placed s; w_step := S (w_step s);
                           w_count := w_count s; w_success := w_success s |}
        else match oracle with
             | [] => OutOfFuel
             | ok :: rest =>
               match iter s prev cur ok with
               | Running s' => loop f rest s'
               | r => r
               end
             end
      end
    end.

  (* _random_walk: the root is placed at the start point unless the molecule already carries a
     "position" attribute for it (root_attr); first_ok = scripted outcome of that placement *)
  Definition walk (fuel : nat) (root : Z) (root_attr : bool) (pos0 : list Z) (first_ok : bool)
             (oracle : list bool) : res :=
    if root_attr then
      loop fuel oracle {| w_pos := pos0; w_placed := []; w_step := 0; w_count := 0; w_success := false |}
    else if first_ok then
      loop fuel oracle {| w_pos := root :: pos0; w_placed := []; w_step := 0; w_count := 0; w_success := true |}
    else Finished {| w_pos := pos0; w_placed := []; w_step := 0; w_count := 0; w_success := false |}.

  (* BuildSystem._handle_random_walk: attempts = scripted (first_ok, oracle) per attempt; after a
     failed attempt the positions of `cleanup` (the argument of remove_positions) are removed.
     Returns the final positioned set and the success flag; None = fuel / script exhausted *)
  Variable attempts_max : nat.           (* BuildSystem.maxiter *)
  Inductive hres := HDone (ok : bool) (pos : list Z) | HCrashed (pos : list Z) | HOut.
  Fixpoint handle (fuel : nat) (root : Z) (root_attr : bool) (cleanup : list Z)
           (pos : list Z) (k : nat) (attempts : list (bool * list bool)) : hres :=
    match attempts with
    | [] => HOut
    | (first_ok, oracle) :: rest =>
      match walk fuel root root_attr pos first_ok oracle with
      | Finished s =>
        if w_success s then HDone true (w_pos s)
        else if k =? attempts_max then HDone false (remove_nodes cleanup (w_pos s))
        else handle fuel root root_attr cleanup (remove_nodes cleanup (w_pos s)) (S k) rest
      | Crashed s => HCrashed (w_pos s)
      | _ => HOut
      end
    end.
End Walk.
