(* Hand-written executable model of the search tree polyply grows a cyclic molecule along:
   networkx dfs_edges (preorder, neighbours in adjacency order, first visit wins), the edge order
   of the DiGraph nx.dfs_tree builds from them (grouped by source, sources in insertion order),
   and the pair gen_coords._initialize_cylces restrains: the edge of the molecule the search tree leaves out, its ends in
   the order the tree reached them,
       order   = list(tree.nodes)
       closing = [tuple(sorted(edge, key=order.index)) for edge in molecule.edges
                  if not tree.has_edge(u, v) and not tree.has_edge(v, u)]   # edge = (u, v)
       ends    = (list(tree.edges)[0][0], list(tree.edges)[-1][1])
       nodes   = closing[0] if closing else ends *)
From Coq Require Import ZArith List Bool.
Import ListNotations.
Open Scope Z_scope.

Definition memz (u : Z) (l : list Z) : bool := existsb (Z.eqb u) l.

(* tree.has_edge(u, v) or tree.has_edge(v, u) *)
Definition same_edge (f e : Z * Z) : bool :=
  ((fst f =? fst e) && (snd f =? snd e)) || ((fst f =? snd e) && (snd f =? fst e)).
Definition in_tree (t : list (Z * Z)) (e : Z * Z) : bool := existsb (fun f => same_edge f e) t.
(* order.index *)
Fixpoint index_of (x : Z) (l : list Z) : nat :=
  match l with [] => O | y :: r => if y =? x then O else S (index_of x r) end.
(* tuple(sorted(edge, key=order.index)): stable *)
Definition orient (order : list Z) (e : Z * Z) : Z * Z :=
  if (index_of (snd e) order <? index_of (fst e) order)%nat then (snd e, fst e) else e.

Section Dfs.
  Variable adj : Z -> list Z.                     (* list(G[v]) *)

  (* edges in discovery order and the visited set after exploring from v *)
  Fixpoint dfs (fuel : nat) (v : Z) (vis : list Z) : list (Z * Z) * list Z :=
    match fuel with
    | O => ([], vis)
    | S f =>
      fold_left (fun (acc : list (Z * Z) * list Z) (u : Z) =>
                   if memz u (snd acc) then acc
                   else let r := dfs f u (u :: snd acc) in
                        ((fst acc ++ (v, u) :: fst r)%list, snd r))
                (adj v) ([], vis)
    end.

  Definition dfs_edges (nnodes : nat) (root : Z) : list (Z * Z) := fst (dfs nnodes root [root]).

  (* list(nx.dfs_tree(G, root).edges): T.add_node(root); T.add_edges_from(dfs_edges) *)
  Definition tree_edges (nnodes : nat) (root : Z) : list (Z * Z) :=
    let es := dfs_edges nnodes root in
    flat_map (fun u => filter (fun e => fst e =? u) es) (root :: map snd es).

  (* ends: first source, last target *)
  Definition cycle_pair (nnodes : nat) (root : Z) : option (Z * Z) :=
    match tree_edges nnodes root with
    | [] => None
    | e :: r => Some (fst e, snd (last r e))
    end.

  (* list(tree.nodes): T.add_node(root), then every edge adds its (new) target *)
  Definition tree_nodes (nnodes : nat) (root : Z) : list Z := root :: map snd (dfs_edges nnodes root).

  Definition closing_pair (edges : list (Z * Z)) (nnodes : nat) (root : Z) : option (Z * Z) :=
    match filter (fun e => negb (in_tree (tree_edges nnodes root) e)) edges with
    | e :: _ => Some (orient (tree_nodes nnodes root) e)
    | [] => cycle_pair nnodes root
    end.
End Dfs.

(* adjacency function of an explicit adjacency table (what the harness passes) *)
Fixpoint adj_of (tbl : list (Z * list Z)) (v : Z) : list Z :=
  match tbl with
  | [] => []
  | (k, ns) :: r => if k =? v then ns else adj_of r v
  end.
