(* Hand-written executable model of the search tree polyply grows a cyclic molecule along:
   networkx dfs_edges (preorder, neighbours in adjacency order, first visit wins), the edge order
   of the DiGraph nx.dfs_tree builds from them (grouped by source, sources in insertion order),
   and the pair gen_coords._initialize_cylces restrains:
       nodes = (list(tree.edges)[0][0], list(tree.edges)[-1][1]). *)
From Coq Require Import ZArith List Bool.
Import ListNotations.
Open Scope Z_scope.

Definition memz (u : Z) (l : list Z) : bool := existsb (Z.eqb u) l.

Section Dfs.
  Variable adj : Z -> list Z.                     (* list(G[v]) *)

  (* edges in discovery order and the visited set after exploring from v *)
  Fixpoint dfs (fuel : nat) (v : Z) (vis : list Z) : list (Z * Z) * list Z :=
    match fuel with
    | O => ([], vis)
    | S f =>
      fold_left (fun (acc : list (Z * Z) * list Z) (u : Z) =>
                   if memz u (snd acc) then acc
                   else let r := dfs f u (u :: snd acc) in
                        ((fst acc ++ (v, u) :: fst r)%list, snd r))
                (adj v) ([], vis)
    end.

  Definition dfs_edges (nnodes : nat) (root : Z) : list (Z * Z) := fst (dfs nnodes root [root]).

  (* list(nx.dfs_tree(G, root).edges): T.add_node(root); T.add_edges_from(dfs_edges) *)
  Definition tree_edges (nnodes : nat) (root : Z) : list (Z * Z) :=
    let es := dfs_edges nnodes root in
    flat_map (fun u => filter (fun e => fst e =? u) es) (root :: map snd es).

  Definition cycle_pair (nnodes : nat) (root : Z) : option (Z * Z) :=
    match tree_edges nnodes root with
    | [] => None
    | e :: r => Some (fst e, snd (last r e))
    end.
End Dfs.

(* adjacency function of an explicit adjacency table (what the harness passes) *)
Fixpoint adj_of (tbl : list (Z * list Z)) (v : Z) : list Z :=
  match tbl with
  | [] => []
  | (k, ns) :: r => if k =? v then ns else adj_of r v
  end.
