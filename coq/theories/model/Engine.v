(* Hand-written executable model of polyply/src/nonbond_engine.py NonBondEngine: the
   bookkeeping of positions / defined_idxs / position_trees, for histories in which a
   position is only added for a residue that currently has none (polyply's own callers;
   see C17).  Under that guard every stored search tree is the snapshot
   positions[defined_idxs[i]] taken at its last rebuild and equals the current rows, so the
   model keeps only the rows and the index lists.  The newest tree is the HEAD of e_lists
   (python: the last element); the order of trees is unobservable except for the order of
   summation.  The distance predicates are parameters: they are instantiated with the
   translated pbc_min_dist (tie T) for evaluation. *)
From Coq Require Import Arith List Bool Lia.
Import ListNotations.

Section Engine.
  Context {V : Type}.
  Variable thr : nat.                     (* 5000 in the source; regenerated (Gen_engine.tree_threshold) *)

  Record eng := { e_pos : list (option V); e_lists : list (list nat) }.

  Definition row (pos : list (option V)) (g : nat) : option V := nth g pos None.
  Definition definedb (pos : list (option V)) (g : nat) : bool :=
    match row pos g with Some _ => true | None => false end.

  Fixpoint set_nth (g : nat) (x : option V) (l : list (option V)) : list (option V) :=
    match l, g with
    | [], _ => []
    | _ :: r, O => x :: r
    | y :: r, S g' => y :: set_nth g' x r
    end.

  Definition defined_indices (pos : list (option V)) : list nat :=
    filter (definedb pos) (seq 0 (length pos)).

  (* __init__ / concatenate_trees: one list with the defined rows in ascending order *)
  Definition init (pos : list (option V)) : eng := {| e_pos := pos; e_lists := [defined_indices pos] |}.
  Definition concat_trees (s : eng) : eng := init (e_pos s).

  (* add_positions(point, mol_idx, node_key, start) *)
  Definition add (start : bool) (g : nat) (p : V) (s : eng) : eng :=
    let pos' := set_nth g (Some p) (e_pos s) in
    match e_lists s with
    | cur :: older =>
      if start && (thr <? length cur)
      then {| e_pos := pos'; e_lists := [g] :: cur :: older |}
      else {| e_pos := pos'; e_lists := (cur ++ [g]) :: older |}
    | [] => {| e_pos := pos'; e_lists := [[g]] |}
    end.

  Fixpoint remove_first (g : nat) (l : list nat) : list nat :=
    match l with
    | [] => []
    | x :: r => if x =? g then r else x :: remove_first g r
    end.

  (* remove_positions(mol_idx, node_keys): nodes without a position are skipped *)
  Definition remove1 (s : eng) (g : nat) : eng :=
    if definedb (e_pos s) g
    then {| e_pos := set_nth g None (e_pos s); e_lists := map (remove_first g) (e_lists s) |}
    else s.
  Definition remove (gs : list nat) (s : eng) : eng := fold_left remove1 gs s.

  Definition get (s : eng) (g : nat) : option V := row (e_pos s) g.

  Inductive op := Add (start : bool) (g : nat) (p : V) | Remove (gs : list nat) | Concat.
  Definition step (s : eng) (o : op) : eng :=
    match o with
    | Add st g p => add st g p s
    | Remove gs => remove gs s
    | Concat => concat_trees s
    end.

  (* the guard of the histories considered: Add only to an existing, unpositioned row *)
  Definition op_ok (s : eng) (o : op) : bool :=
    match o with
    | Add _ g _ => (g <? length (e_pos s)) && negb (definedb (e_pos s) g)
    | _ => true
    end.
  Fixpoint run (s : eng) (ops : list op) : option eng :=
    match ops with
    | [] => Some s
    | o :: r => if op_ok s o then run (step s o) r else None
    end.

  (* compute_force_point: which stored residues are hit (within the cut-off of the point under
     periodic boundaries), the 0.1 nm floor, the exclusions *)
  Variable within : V -> V -> bool.
  Variable tooclose : V -> V -> bool.
  Inductive force_res := FInf | FSum (contributors : list nat).

  Definition hit (pos : list (option V)) (p : V) (g : nat) : bool :=
    match row pos g with Some q => within p q | None => false end.
  Definition hits (s : eng) (p : V) : list nat :=
    flat_map (fun l => filter (hit (e_pos s) p) l) (e_lists s).
  Definition force (s : eng) (p : V) (excl : list nat) : force_res :=
    let h := hits s p in
    if existsb (fun g => match row (e_pos s) g with Some q => tooclose p q | None => false end) h
    then FInf
    else FSum (filter (fun g => negb (existsb (Nat.eqb g) excl)) h).
End Engine.
Arguments eng : clear implicits.
Arguments op : clear implicits.
