(* C04: Topology.add_positions_from_file -- coordinates are consumed residue by residue with a
   cursor; the engine slots of BuildSystem.run_system when molecules are ignored. *)
From Coq Require Import String List Bool Arith.
Import ListNotations.

Section Consume.
Variable P : Type.                              (* a coordinate *)
Variable cog : list P -> P.                     (* center_of_geometry *)

Record residue := { r_name : string; r_natoms : nat }.   (* atoms in [ atoms ] index order *)

(* what the reader leaves on a residue *)
Inductive rstate :=
| RBuild                                  (* build = backmap = True, nothing consumed *)
| RCentre (p : P)                         (* position = p, build = False, backmap = True *)
| RAtoms (ps : list P) (c : P).           (* atoms get ps, position = cog ps, build = backmap = False *)

Inductive cres := COk (rs : list rstate) (rest : list P) | CErr.

(* one residue; [rest] = coordinates not yet consumed (total >= max_coords <-> rest = []) *)
Definition consume_res (mol_resolution : bool) (skip : string -> bool) (r : residue) (rest : list P) : option (rstate * list P) :=
  if skip (r_name r) || (match rest with [] => true | _ => false end) then Some (RBuild, rest)
  else if negb mol_resolution then
    match rest with p :: rest' => Some (RCentre p, rest') | [] => None end
  else if length rest <? r_natoms r then None          (* IOError: coordinates of a residue must be complete *)
  else let ps := firstn (r_natoms r) rest in Some (RAtoms ps (cog ps), skipn (r_natoms r) rest).

Fixpoint consume (mol_resolution : bool) (skip : string -> bool) (rs : list residue) (rest : list P) : cres :=
  match rs with
  | [] => COk [] rest
  | r :: tl =>
    match consume_res mol_resolution skip r rest with
    | None => CErr
    | Some (st, rest') =>
      match consume mol_resolution skip tl rest' with
      | COk sts rest'' => COk (st :: sts) rest''
      | CErr => CErr
      end
    end
  end.

Definition used (st : rstate) : list P :=
  match st with RBuild => [] | RCentre p => [p] | RAtoms ps _ => ps end.

(* ---- after building: the walk gives positions to RBuild residues only, backmapping gives
   atoms to RBuild / RCentre residues around the residue position; both are oracles ---- *)
Variable walk : nat -> P.                       (* residue index -> position produced by the random walk *)
Variable backmap : nat -> P -> list P.          (* residue index, centre -> atom coordinates *)

Definition final_centre (i : nat) (st : rstate) : P :=
  match st with RBuild => walk i | RCentre p => p | RAtoms _ c => c end.
Definition final_atoms (i : nat) (st : rstate) : list P :=
  match st with
  | RBuild => backmap i (walk i)
  | RCentre p => backmap i p
  | RAtoms ps _ => ps
  end.
End Consume.
Arguments RBuild {P}. Arguments RCentre {P}. Arguments RAtoms {P}. Arguments COk {P}. Arguments CErr {P}.
Arguments consume {P}. Arguments consume_res {P}. Arguments used {P}. Arguments final_centre {P}. Arguments final_atoms {P}.

(* ---- engine slots: (topology index, molecule) for every molecule that is not ignored ---- *)
Fixpoint enumerate_from {A} (k : nat) (l : list A) : list (nat * A) :=
  match l with [] => [] | x :: r => (k, x) :: enumerate_from (S k) r end.
Definition slots (ignored : string -> bool) (mols : list string) : list (nat * string) :=
  filter (fun p => negb (ignored (snd p))) (enumerate_from 0 mols).
Fixpoint slot_of (s : list (nat * string)) (i : nat) : option string :=
  match s with [] => None | (k, m) :: r => if Nat.eqb k i then Some m else slot_of r i end.
