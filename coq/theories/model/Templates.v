(* C15: template bookkeeping of GenerateTemplates / BuildDirector.  Residue graphs are keyed
   by a hash (networkx Weisfeiler-Lehman hash with atom names as labels: a Section variable with
   its contract as hypothesis); template generation and volume computation are oracles. *)
From Coq Require Import List Bool Arith.
Import ListNotations.

Section Templates.
Variables (G H T V : Type).                    (* residue graph, hash, template, size *)
Variable hash : G -> H.
Variable heqb : H -> H -> bool.
Hypothesis heqb_spec : forall a b, heqb a b = true <-> a = b.

Fixpoint lookup {A} (k : H) (l : list (H * A)) : option A :=
  match l with [] => None | (k', v) :: r => if heqb k' k then Some v else lookup k r end.

(* group_residues_by_hash: every residue is tagged with its hash; the first residue seen with
   a new hash provides the template graph; keys given beforehand (user templates) stay *)
Fixpoint group (seen : list (H * option G)) (residues : list G) : list (H * option G) * list H :=
  match residues with
  | [] => (seen, [])
  | g :: r =>
    let h := hash g in
    let seen' := match lookup h seen with Some _ => seen | None => (seen ++ [(h, Some g)])%list end in
    let '(s, tags) := group seen' r in (s, h :: tags)
  end.

(* gen_templates: user templates are kept; a template and a size are generated for every other key *)
Variable generate : G -> T.
Variable compute_volume : G -> T -> V.
Variable resname : G -> nat.
Fixpoint gen_templates (user_t : list (H * T)) (user_v : list (nat * V)) (vols : list (H * V)) (graphs : list (H * option G))
  : list (H * T) * list (H * V) :=
  match graphs with
  | [] => (user_t, vols)
  | (h, og) :: r =>
    match lookup h user_t, og with
    | None, Some g =>
      let t := generate g in
      let v := match find (fun p => Nat.eqb (fst p) (resname g)) user_v with Some p => snd p | None => compute_volume g t end in
      gen_templates (user_t ++ [(h, t)])%list user_v (vols ++ [(h, v)])%list r
    | _, _ => gen_templates user_t user_v vols r
    end
  end.
End Templates.
Arguments lookup {H} heqb {A}.
Arguments group {G H} hash heqb.
Arguments gen_templates {G H T V} heqb generate compute_volume resname.
