(* Hand-written model of Backmap._place_init_coords (polyply/src/backmap.py), generic in
   the vector type: which template vector goes to which atom.  The arithmetic of one
   placement is a parameter [place], instantiated with the *translated* expression
   Gen_backmap.place_atom composed with the translated rotation (proofs/C06.v) and with the
   PrimFloat instance for evaluation (tie D). *)
From Coq Require Import ZArith String List Bool.
Import ListNotations.

Section Backmap.
  Context {V : Type}.
  (* place cg rotated_template_vector *)
  Variable place : V -> V -> V.
  (* rot node_index v : the whole-template rotation chosen for that residue (optimiser = oracle) *)
  Variable rot : nat -> V -> V.

  Fixpoint lookup (t : list (string * V)) (n : string) : option V :=
    match t with
    | [] => None
    | (k, v) :: r => if String.eqb k n then Some v else lookup r n
    end.

  (* atoms of a residue: (atom key, atom name); KeyError when the template lacks the name *)
  Fixpoint place_atoms (i : nat) (cg : V) (t : list (string * V)) (atoms : list (Z * string))
    : option (list (Z * V)) :=
    match atoms with
    | [] => Some []
    | (a, n) :: r =>
      match lookup t n, place_atoms i cg t r with
      | Some v, Some out => Some ((a, place cg (rot i v)) :: out)
      | _, _ => None
      end
    end.

  Record residue := { r_backmap : bool; r_cg : V; r_template : list (string * V);
                      r_atoms : list (Z * string) }.

  (* writes performed on molecule.nodes[...]["position"], in order; residues with
     backmap = false are skipped altogether *)
  Fixpoint backmap_from (i : nat) (rs : list residue) : option (list (Z * V)) :=
    match rs with
    | [] => Some []
    | r :: rest =>
      if r_backmap r then
        match place_atoms i (r_cg r) (r_template r) (r_atoms r), backmap_from (S i) rest with
        | Some w, Some ws => Some (w ++ ws)
        | _, _ => None
        end
      else backmap_from (S i) rest
    end.
  Definition backmap (rs : list residue) := backmap_from 0 rs.
End Backmap.
Arguments residue : clear implicits.
