(* Hand-written executable model of graph_utils.find_connecting_edges / find_missing_edges
   (polyply/src/graph_utils.py:90-168): atoms whose degree in the residue's fragment graph
   differs from their degree in the molecule, then edge lookup between the two filtered sets. *)
From Coq Require Import ZArith List Bool Arith.
From PV Require Import Graph.
Import ListNotations.
Open Scope Z_scope.

Definition degree (g : graph) (a : Z) : nat := length (nodup Z.eq_dec (neighbors g a)).
Definition has_edge (g : graph) (a b : Z) : bool := existsb (Z.eqb b) (neighbors g a).

(* a residue of the residue graph: its key, the nodes and edges of its "graph" attribute *)
Record residue := { r_key : Z; r_nodes : list Z; r_edges : graph }.

Definition allowed (mol : graph) (r : residue) : list Z :=
  filter (fun a => negb (Nat.eqb (degree (r_edges r) a) (degree mol a))) (r_nodes r).

Definition connecting (mol : graph) (ra rb : residue) : list (Z * Z) :=
  flat_map (fun u => map (fun v => (u, v)) (filter (has_edge mol u) (allowed mol rb))) (allowed mol ra).

Fixpoint find_res (rs : list residue) (k : Z) : option residue :=
  match rs with [] => None | r :: t => if r_key r =? k then Some r else find_res t k end.

(* the residue-graph edges for which a missing-link record is produced *)
Definition missing (mol : graph) (rs : list residue) (res_edges : list (Z * Z)) : list (Z * Z) :=
  filter (fun e => match find_res rs (fst e), find_res rs (snd e) with
                   | Some ra, Some rb => match connecting mol ra rb with [] => true | _ => false end
                   | _, _ => false
                   end) res_edges.
