(* C12: sequence inputs -> residue graph.  -seq monomer lists, .txt / .fasta / .ig readers
   (polyply/src/simple_seq_parsers.py, MetaMolecule.from_monomer_seq_linear) and the gen_seq
   macro machinery (polyply/src/gen_seq.py).  Node keys are 0.., resid = key + 1. *)
From Coq Require Import String Ascii List Bool Arith.
Import ListNotations.
Open Scope string_scope.

Record graph := { g_names : list string;                 (* resname of node k = k-th entry; resid = k + 1 *)
                  g_edges : list (nat * nat * bool) }.    (* (a, b, labelled circular) *)

(* ---- linear sequences ---- *)
Fixpoint chain_edges (k n : nat) : list (nat * nat * bool) :=
  match n with O => [] | S m => (k, S k, false) :: chain_edges (S k) m end.
Definition linear (names : list string) : graph :=
  {| g_names := names; g_edges := chain_edges 0 (length names - 1) |}.

(* -seq NAME:n ... : MetaMolecule.from_monomer_seq_linear *)
Definition expand_monomers (ms : list (string * nat)) : list string := flat_map (fun m => repeat (fst m) (snd m)) ms.
Definition from_seq (ms : list (string * nat)) : graph := linear (expand_monomers ms).

(* ---- .txt: line.strip().split(" "), each token stripped; lines and tokens as character lists ---- *)
Definition is_ws (c : ascii) : bool :=
  (Ascii.eqb c " " || Ascii.eqb c "009" || Ascii.eqb c "010" || Ascii.eqb c "013" || Ascii.eqb c "011" || Ascii.eqb c "012")%char.
Fixpoint lstripL (l : list ascii) : list ascii :=
  match l with c :: r => if is_ws c then lstripL r else l | [] => [] end.
Definition stripL (l : list ascii) : list ascii := rev (lstripL (rev (lstripL l))).
(* str.split(" "): cur is kept reversed *)
Fixpoint split_spL (l cur : list ascii) : list (list ascii) :=
  match l with
  | [] => [rev cur]
  | c :: r => if Ascii.eqb c " " then rev cur :: split_spL r [] else split_spL r (c :: cur)
  end.
Definition txt_tokensL (lines : list (list ascii)) : list (list ascii) :=
  flat_map (fun l => map stripL (split_spL (stripL l) [])) lines.
Definition parse_txt (lines : list string) : graph :=
  linear (map string_of_list_ascii (txt_tokensL (map list_ascii_of_string lines))).
Definition strip (s : string) : string := string_of_list_ascii (stripL (list_ascii_of_string s)).

(* ---- one-letter codes ---- *)
Inductive alphabet := DNA | RNA | AA.
Definition one_letter (a : alphabet) (c : ascii) : option string :=
  match a with
  | DNA => if Ascii.eqb c "A" then Some "DA" else if Ascii.eqb c "C" then Some "DC" else if Ascii.eqb c "G" then Some "DG"
           else if Ascii.eqb c "T" then Some "DT" else None
  | RNA => if Ascii.eqb c "A" then Some "A" else if Ascii.eqb c "C" then Some "C" else if Ascii.eqb c "G" then Some "G"
           else if Ascii.eqb c "T" then Some "U" else None
  | AA => if Ascii.eqb c "G" then Some "GLY" else if Ascii.eqb c "A" then Some "ALA" else if Ascii.eqb c "V" then Some "VAL"
          else if Ascii.eqb c "C" then Some "CYS" else if Ascii.eqb c "P" then Some "PRO" else if Ascii.eqb c "L" then Some "LEU"
          else if Ascii.eqb c "I" then Some "ILE" else if Ascii.eqb c "M" then Some "MET" else if Ascii.eqb c "W" then Some "TRP"
          else if Ascii.eqb c "F" then Some "PHE" else if Ascii.eqb c "S" then Some "SER" else if Ascii.eqb c "T" then Some "THR"
          else if Ascii.eqb c "Y" then Some "TYR" else if Ascii.eqb c "N" then Some "ASN" else if Ascii.eqb c "Q" then Some "GLN"
          else if Ascii.eqb c "K" then Some "LYS" else if Ascii.eqb c "R" then Some "ARG" else if Ascii.eqb c "H" then Some "HIS"
          else if Ascii.eqb c "D" then Some "ASP" else if Ascii.eqb c "E" then Some "GLU" else if Ascii.eqb c "O" then Some "HYP"
          else None
  end.
Fixpoint translate (a : alphabet) (letters : list ascii) : option (list string) :=
  match letters with
  | [] => Some []
  | c :: r => match one_letter a c, translate a r with Some x, Some l => Some (x :: l) | _, _ => None end
  end.
Definition nucleic (a : alphabet) : bool := match a with AA => false | _ => true end.
Definition set_first (l : list string) (f : string -> string) : list string := match l with [] => [] | x :: r => f x :: r end.
Definition set_last (l : list string) (f : string -> string) : list string := rev (set_first (rev l) f).
Definition add_termini (a : alphabet) (l : list string) : list string :=
  if nucleic a then set_last (set_first l (fun x => x ++ "5")) (fun x => x ++ "3") else l.

Definition letters_of (lines : list string) : list ascii := flat_map (fun l => list_ascii_of_string (strip l)) lines.
(* _parse_plain *)
Definition parse_plain (a : alphabet) (lines : list string) : option graph :=
  option_map (fun names => linear (add_termini a names)) (translate a (letters_of lines)).

(* a comment may carry the PROTEIN keyword together with DNA or RNA (_identify_residues rejects only DNA with RNA):
   every letter is then looked up in the DNA table, the RNA table, the amino-acid table in this order *)
Record kinds := { k_dna : bool; k_rna : bool; k_aa : bool }.
Definition kinds_ok (k : kinds) : bool := negb (k_dna k && k_rna k) && (k_dna k || k_rna k || k_aa k).
Definition one_letter_mix (k : kinds) (c : ascii) : option string :=
  match (if k_dna k then one_letter DNA c else None) with
  | Some x => Some x
  | None => match (if k_rna k then one_letter RNA c else None) with
            | Some x => Some x
            | None => if k_aa k then one_letter AA c else None
            end
  end.
Fixpoint translate_mix (k : kinds) (letters : list ascii) : option (list string) :=
  match letters with
  | [] => Some []
  | c :: r => match one_letter_mix k c, translate_mix k r with Some x, Some l => Some (x :: l) | _, _ => None end
  end.
Definition add_termini_mix (k : kinds) (l : list string) : list string :=
  if k_dna k || k_rna k then set_last (set_first l (fun x => x ++ "5")) (fun x => x ++ "3") else l.
Definition parse_plain_mix (k : kinds) (lines : list string) : option graph :=
  if kinds_ok k then option_map (fun names => linear (add_termini_mix k names)) (translate_mix k (letters_of lines)) else None.
Definition kinds_of (a : alphabet) : kinds :=
  match a with DNA => {| k_dna := true; k_rna := false; k_aa := false |} | RNA => {| k_dna := false; k_rna := true; k_aa := false |}
             | AA => {| k_dna := false; k_rna := false; k_aa := true |} end.

(* Graph.add_edge on a simple graph: an existing edge between the same residues is relabelled *)
Definition same_ends (e : nat * nat * bool) (a b : nat) : bool :=
  (Nat.eqb (fst (fst e)) a && Nat.eqb (snd (fst e)) b) || (Nat.eqb (fst (fst e)) b && Nat.eqb (snd (fst e)) a).
Definition add_edge (es : list (nat * nat * bool)) (a b : nat) (l : bool) : list (nat * nat * bool) :=
  if existsb (fun e => same_ends e a b) es
  then map (fun e => if same_ends e a b then (fst e, l) else e) es
  else (es ++ [(a, b, l)])%list.

(* .ig: sequence lines (title removed) and terminator already split off; circular closes the
   ring with a labelled edge and undoes the terminal naming *)
Definition parse_ig (a : alphabet) (circular : bool) (lines : list string) : option graph :=
  match translate a (letters_of lines) with
  | None => None
  | Some names =>
    if circular then Some {| g_names := names; g_edges := add_edge (g_edges (linear names)) 0 (length names - 1) true |}
    else Some (linear (add_termini a names))
  end.

(* ---- gen_seq ---- *)
(* nx.balanced_tree(r, h): number of nodes and parent of node k *)
Fixpoint tree_size (r h : nat) : nat := match h with O => 1 | S k => 1 + r * tree_size r k end.
Definition tree_edges (r n : nat) : list (nat * nat * bool) := map (fun k => ((k - 1) / r, k, false)) (seq 1 (n - 1)).
Record macro := { m_levels : nat; m_bfact : nat; m_res : string }.      (* one residue with probability 1 *)
Definition macro_graph (m : macro) : graph :=
  let n := tree_size (m_bfact m) (m_levels m - 1) in
  {| g_names := repeat (m_res m) n; g_edges := tree_edges (m_bfact m) n |}.

Definition shift (off : nat) (es : list (nat * nat * bool)) := map (fun e => (fst (fst e) + off, snd (fst e) + off, snd e)) es.
(* disjoint_union in sequence order; offsets of the blocks *)
Fixpoint union (blocks : list graph) (off : nat) : list string * list (nat * nat * bool) * list nat :=
  match blocks with
  | [] => ([], [], [])
  | b :: r => let '(ns, es, offs) := union r (off + length (g_names b)) in
              (g_names b ++ ns, shift off (g_edges b) ++ es, off :: offs)%list
  end.
Record connect := { c_i : nat; c_j : nat; c_a : nat; c_b : nat }.        (* i:j:a-b *)
Definition connect_edge (offs : list nat) (sizes : list nat) (c : connect) : option (nat * nat * bool) :=
  match nth_error offs (c_i c), nth_error offs (c_j c), nth_error sizes (c_i c), nth_error sizes (c_j c) with
  | Some oi, Some oj, Some si, Some sj => if (Nat.ltb (c_a c) si) && (Nat.ltb (c_b c) sj) then Some (oi + c_a c, oj + c_b c, false) else None
  | _, _, _, _ => None
  end.
Fixpoint connect_edges offs sizes (cs : list connect) : option (list (nat * nat * bool)) :=
  match cs with
  | [] => Some []
  | c :: r => match connect_edge offs sizes c, connect_edges offs sizes r with Some e, Some l => Some (e :: l) | _, _ => None end
  end.
Definition degree (es : list (nat * nat * bool)) (k : nat) : nat :=
  length (filter (fun e => Nat.eqb (fst (fst e)) k || Nat.eqb (snd (fst e)) k) es).
(* terminal renaming: nodes of block i with degree 1 in the connected graph *)
Definition rename_termini (es : list (nat * nat * bool)) (offs sizes : list nat) (mods : list (nat * string)) (names : list string) : list string :=
  fold_left (fun ns md =>
    match nth_error offs (fst md), nth_error sizes (fst md) with
    | Some o, Some s => map (fun p => if (Nat.leb o (fst p)) && (Nat.ltb (fst p) (o + s)) && Nat.eqb (degree es (fst p)) 1 then snd md else snd p)
                            (combine (seq 0 (length ns)) ns)
    | _, _ => ns
    end) mods names.
Definition gen_seq_graph (macros : list (string * macro)) (sequence : list string) (cs : list connect) (mods : list (nat * string)) : option graph :=
  let find n := match find (fun p => String.eqb (fst p) n) (rev macros) with Some p => Some (snd p) | None => None end in
  let fix blocks_of (l : list string) : option (list graph) :=
      match l with [] => Some [] | n :: r => match find n, blocks_of r with Some m, Some bs => Some (macro_graph m :: bs) | _, _ => None end end in
  match blocks_of sequence with
  | None => None
  | Some blocks =>
    let '(names, es, offs) := union blocks 0 in
    let sizes := map (fun b => length (g_names b)) blocks in
    match connect_edges offs sizes cs with
    | None => None
    | Some ces => let es' := (es ++ ces)%list in Some {| g_names := rename_termini es' offs sizes mods names; g_edges := es' |}
    end
  end.
