(* Hand-written model of the file effects of gen_params / gen_coords / gen_seq: a program is
   the list of statement kinds regenerated from the source (Gen_effects); an exception at
   statement k means that exactly the first k statements were executed.  The deferred writer
   of vermouth (file_writer.py) is modelled as a queue of (final name, data) with the
   Gromacs-style backup on flush. *)
From Coq Require Import Arith String List Bool.
From PV Require Import EffectKinds.
Import ListNotations.

Section Effects.
  Variable content : Type.
  Variable empty : content.                 (* a created / truncated file *)
  Variable bk : string -> nat -> string.    (* "#name.k#" *)

  Definition fs := list (string * content). (* the output directory: name -> content *)

  Fixpoint lookup (f : fs) (n : string) : option content :=
    match f with
    | [] => None
    | (k, c) :: r => if String.eqb k n then Some c else lookup r n
    end.
  Fixpoint set (f : fs) (n : string) (c : content) : fs :=
    match f with
    | [] => [(n, c)]
    | (k, d) :: r => if String.eqb k n then (k, c) :: r else (k, d) :: set r n c
    end.
  Fixpoint remove (f : fs) (n : string) : fs :=
    match f with
    | [] => []
    | (k, d) :: r => if String.eqb k n then r else (k, d) :: remove r n
    end.

  (* _find_free_path: first k >= 1 such that #name.k# does not exist *)
  Fixpoint first_free (f : fs) (n : string) (fuel k : nat) : option nat :=
    match fuel with
    | O => None
    | S fu => match lookup f (bk n k) with
              | None => Some k
              | Some _ => first_free f n fu (S k)
              end
    end.

  (* _write_file: back up an existing destination, then move the temporary file in place *)
  Definition write_file (f : fs) (final : string) (data : content) : option fs :=
    match lookup f final with
    | None => Some (set f final data)
    | Some old =>
      match first_free f final (S (length f)) 1 with
      | None => None
      | Some k => Some (set (set (remove f final) (bk final k) old) final data)
      end
    end.

  Record est := { e_fs : fs; e_queue : list (string * content) }.

  Fixpoint flush (f : fs) (q : list (string * content)) : option fs :=
    match q with
    | [] => Some f
    | (final, data) :: r => match write_file f final data with
                            | None => None
                            | Some f' => flush f' r
                            end
    end.

  Definition set_last (q : list (string * content)) (out : string) (data : content) :=
    match rev q with
    | [] => [(out, data)]
    | (n, _) :: r => rev ((n, data) :: r)
    end.

  (* one statement; out = output path, data = the complete new content *)
  Definition exec (out : string) (data : content) (s : est) (k : stmt_kind) : option est :=
    match k with
    | Stage => Some s
    | OpenDeferred | NestedOpenDeferred => Some {| e_fs := e_fs s; e_queue := e_queue s ++ [(out, empty)] |}
    | WriteTmp | NestedWriteTmp => Some {| e_fs := e_fs s; e_queue := set_last (e_queue s) out data |}
    | WriteDeferred | NestedWriteDeferred => Some {| e_fs := e_fs s; e_queue := e_queue s ++ [(out, data)] |}
    | Flush | NestedFlush => match flush (e_fs s) (e_queue s) with
                             | None => None
                             | Some f => Some {| e_fs := f; e_queue := [] |}
                             end
    | OpenTruncate | NestedOpenTruncate => Some {| e_fs := set (e_fs s) out empty; e_queue := e_queue s |}
    | Dump | NestedDump => Some {| e_fs := set (e_fs s) out data; e_queue := e_queue s |}
    end.

  Fixpoint run (out : string) (data : content) (prog : list stmt_kind) (s : est) : option est :=
    match prog with
    | [] => Some s
    | k :: r => match exec out data s k with
                | None => None
                | Some s' => run out data r s'
                end
    end.

  (* statements that can change the output directory *)
  Definition visible (k : stmt_kind) : bool :=
    match k with
    | Stage | OpenDeferred | WriteTmp | WriteDeferred | NestedOpenDeferred | NestedWriteTmp | NestedWriteDeferred => false
    | _ => true
    end.
  Fixpoint first_visible (prog : list stmt_kind) : nat :=
    match prog with
    | [] => 0
    | k :: r => if visible k then 0 else S (first_visible r)
    end.

  (* shapes accepted as "writes only as the last step": (invisible)* Flush (Stage)*  and
     (Stage)* OpenTruncate Dump *)
  Definition deferred_shape (prog : list stmt_kind) : bool :=
    let n := first_visible prog in
    match skipn n prog with
    | Flush :: post => forallb (fun k => match k with Stage => true | _ => false end) post
    | _ => false
    end.
  Definition direct_shape (prog : list stmt_kind) : bool :=
    let n := first_visible prog in
    forallb (fun k => match k with Stage => true | _ => false end) (firstn n prog) &&
    match skipn n prog with
    | [OpenTruncate; Dump] => true
    | _ => false
    end.
End Effects.
