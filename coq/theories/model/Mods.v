(* Hand-written executable model of apply_mod (polyply/src/apply_modifications.py): every
   (target residue id, modification name) pair in turn; the target is the residue with that id;
   it is skipped when its `from_itp` attribute is falsy or its residue name is not applicable
   (the guard is a parameter: Props instantiate it with the guard translated from the source);
   atoms of the target residue whose name the modification lists get the listed attributes
   (python dict update), and the modification's interactions are appended on those atoms. *)
From Coq Require Import ZArith String List Bool.
Import ListNotations.
Open Scope Z_scope.

Definition attrs := list (string * string).

(* python dict item assignment: an existing key keeps its place, a new key is appended *)
Fixpoint dset (d : attrs) (k v : string) : attrs :=
  match d with
  | [] => [(k, v)]
  | (k', v') :: r => if String.eqb k' k then (k', v) :: r else (k', v') :: dset r k v
  end.
Fixpoint dget (d : attrs) (k : string) : option string :=
  match d with
  | [] => None
  | (k', v') :: r => if String.eqb k' k then Some v' else dget r k
  end.
Definition dupdate (d : attrs) (upd : attrs) : attrs := fold_left (fun acc kv => dset acc (fst kv) (snd kv)) upd d.

(* an atom is its key and its attribute dictionary; the name is the attribute "atomname" *)
Record atom := { at_key : Z; at_attrs : attrs }.
Definition at_name (a : atom) : string := match dget (at_attrs a) "atomname" with Some n => n | None => "" end.
Record residue := { rs_resid : Z; rs_resname : string; rs_from_itp : bool; rs_atoms : list Z }.
Record inter := { in_sec : string; in_atoms : list Z; in_params : list string }.
Record minter := { mi_sec : string; mi_a : string; mi_b : string; mi_params : list string }.
Record modif := { md_name : string; md_atoms : list (string * attrs); md_inters : list minter }.
Record mol := { ml_atoms : list atom; ml_inters : list inter }.

(* mod_atoms: a python dict built in file order -- the last entry of a name wins *)
Fixpoint mod_lookup (l : list (string * attrs)) (n : string) : option attrs :=
  match l with
  | [] => None
  | (n', r) :: rest => match mod_lookup rest n with
                       | Some x => Some x
                       | None => if String.eqb n' n then Some r else None
                       end
  end.

Fixpoint find_modif (t : list modif) (n : string) : option modif :=
  match t with [] => None | m :: r => if String.eqb (md_name m) n then Some m else find_modif r n end.
Fixpoint find_residue (rs : list residue) (resid : Z) : option residue :=
  match rs with [] => None | r :: t => if rs_resid r =? resid then Some r else find_residue t resid end.
Definition zmem (x : Z) (l : list Z) : bool := existsb (Z.eqb x) l.

Definition touch (r : residue) (md : modif) (a : atom) : atom :=
  if zmem (at_key a) (rs_atoms r) then
    match mod_lookup (md_atoms md) (at_name a) with
    | Some upd => {| at_key := at_key a; at_attrs := dupdate (at_attrs a) upd |}
    | None => a
    end
  else a.

(* anum_dict: atom name -> atom key over the residue's atoms (in the order of its fragment
   graph); a later atom of the same name replaces an earlier one *)
Fixpoint find_atom (atoms : list atom) (k : Z) : option atom :=
  match atoms with [] => None | a :: r => if at_key a =? k then Some a else find_atom r k end.
Fixpoint anum (atoms : list atom) (md : modif) (keys : list Z) (n : string) : option Z :=
  match keys with
  | [] => None
  | k :: rest =>
    match anum atoms md rest n with
    | Some x => Some x
    | None => match find_atom atoms k with
              | Some a => if String.eqb (at_name a) n && (match mod_lookup (md_atoms md) n with Some _ => true | None => false end)
                          then Some k else None
              | None => None
              end
    end
  end.

Fixpoint add_inters (atoms : list atom) (r : residue) (md : modif) (l : list minter) : option (list inter) :=
  match l with
  | [] => Some []
  | i :: rest =>
    match anum atoms md (rs_atoms r) (mi_a i), anum atoms md (rs_atoms r) (mi_b i), add_inters atoms r md rest with
    | Some a, Some b, Some t => Some ({| in_sec := mi_sec i; in_atoms := [a; b]; in_params := mi_params i |} :: t)
    | _, _, _ => None
    end
  end.

Section Apply.
  Variable applicable : string -> bool.
  Variable table : list modif.
  Variable residues : list residue.

  (* None = the run fails (unknown modification, no such residue, interaction on an atom the
     target does not have) *)
  Definition apply_one (m : mol) (t : Z * string) : option mol :=
    match find_modif table (snd t), find_residue residues (fst t) with
    | Some md, Some r =>
      if negb (rs_from_itp r) then Some m
      else if negb (applicable (rs_resname r)) then Some m
      else match add_inters (ml_atoms m) r md (md_inters md) with
           | Some extra => Some {| ml_atoms := map (touch r md) (ml_atoms m); ml_inters := (ml_inters m ++ extra)%list |}
           | None => None
           end
    | _, _ => None
    end.

  Fixpoint apply_mods (m : mol) (ts : list (Z * string)) : option mol :=
    match ts with
    | [] => Some m
    | t :: rest => match apply_one m t with Some m' => apply_mods m' rest | None => None end
    end.

  (* apply_mod: nothing happens when the force field has no modifications at all *)
  Definition apply_mod (m : mol) (ts : list (Z * string)) : option mol :=
    match table with [] => Some m | _ => apply_mods m ts end.
End Apply.
