(* Hand-written executable model of ApplyLinks.run_molecule (polyply/src/apply_links.py) for
   links whose atoms are selected by atom name, residue name (choice) and order: residue-level
   induced-subgraph matching, relative-order check (vermouth match_order), unique atom match per
   link atom, attribute replacement, and the last-writer-wins table of interactions keyed by
   (section, atoms, version).  The residue graph of each link (nodes = orders, edges) is an input
   (vermouth's make_residue_graph is a library contract). *)
From Coq Require Import ZArith String Ascii List Bool DecimalString DecimalZ.
Import ListNotations.
Open Scope Z_scope.

(* ---- orders ---- *)
Inductive order := ONum (z : Z) | OArrow (v : Z) (* '>'*n -> +n, '<'*n -> -n *) | OStar (n : Z).
Definition order_eqb (a b : order) : bool :=
  match a, b with
  | ONum x, ONum y | OArrow x, OArrow y | OStar x, OStar y => x =? y
  | _, _ => false
  end.
Definition sgn (z : Z) : Z := if z <? 0 then -1 else if 0 <? z then 1 else 0.

(* vermouth.processors.do_links.match_order *)
Definition match_order (o1 : order) (r1 : Z) (o2 : order) (r2 : Z) : bool :=
  match o1, o2 with
  | ONum a, ONum b => (b - a) =? (r2 - r1)
  | ONum a, OArrow b => if a =? 0 then sgn (r2 - r1) =? sgn b else true
  | ONum a, OStar _ => if a =? 0 then negb (r1 =? r2) else true
  | OArrow a, ONum b => if b =? 0 then sgn (r1 - r2) =? sgn a else true
  | OArrow a, OArrow b => sgn (r2 - r1) =? sgn (b - a)
  | OArrow _, OStar _ => true
  | OStar _, ONum b => if b =? 0 then negb (r1 =? r2) else true
  | OStar a, OStar b => Bool.eqb (a =? b) (r1 =? r2)
  | OStar _, OArrow _ => true
  end.

(* _check_relative_order for an injective assignment: all unordered pairs *)
Fixpoint all_pairs_ok (l : list (order * Z)) : bool :=
  match l with
  | [] => true
  | (o, r) :: rest => forallb (fun p => match_order o r (fst p) (snd p)) rest && all_pairs_ok rest
  end.

(* ---- data ---- *)
(* ra_attrs: further attributes of the atom (those of its residue in the sequence are passed on to every atom of it) *)
Record ratom := { ra_key : Z; ra_name : string; ra_resname : string; ra_attrs : list (string * string) }.
Record mnode := { mn_key : Z; mn_resid : Z; mn_atoms : list ratom }.
(* m_labels: the 'linktype' attribute of the residue-graph edges that carry one *)
Record meta := { m_nodes : list mnode; m_edges : list (Z * Z); m_labels : list (Z * Z * string) }.

(* la_attrs: further attribute conditions of the link atom (every one must be met by the atom) *)
Record latom := { la_key : string; la_name : string; la_order : order; la_resnames : list string;
                  la_replace : list (string * string); la_attrs : list (string * string) }.
Record linter := { li_sec : string; li_atoms : list string; li_params : list string; li_version : Z;
                   li_meta : list (string * string) }.
(* l_res_labels: the 'linktype' attribute of the edges of the link's residue graph that carry one *)
Record link := { l_atoms : list latom; l_inters : list linter; l_edges : list (string * string);
                 l_res_nodes : list order; l_res_edges : list (order * order);
                 l_res_labels : list (order * order * string) }.

Definition ikey := (string * list Z * Z)%type.               (* section, atoms, version *)
Definition ival := (list string * list (string * string))%type. (* parameters, meta *)

Fixpoint zlist_eqb (a b : list Z) : bool :=
  match a, b with
  | [], [] => true
  | x :: r, y :: s => (x =? y) && zlist_eqb r s
  | _, _ => false
  end.
Definition ikey_eqb (a b : ikey) : bool :=
  let '(s1, a1, v1) := a in let '(s2, a2, v2) := b in String.eqb s1 s2 && zlist_eqb a1 a2 && (v1 =? v2).

(* python dict: an existing key keeps its place, a new key is appended *)
Fixpoint aset (m : list (ikey * ival)) (k : ikey) (v : ival) : list (ikey * ival) :=
  match m with
  | [] => [(k, v)]
  | (k', v') :: r => if ikey_eqb k' k then (k', v) :: r else (k', v') :: aset r k v
  end.
Fixpoint alookup (m : list (ikey * ival)) (k : ikey) : option ival :=
  match m with
  | [] => None
  | (k', v') :: r => if ikey_eqb k' k then Some v' else alookup r k
  end.

(* ---- residue-level matching ---- *)
Definition has_medge (g : meta) (a b : Z) : bool :=
  existsb (fun e => ((fst e =? a) && (snd e =? b)) || ((fst e =? b) && (snd e =? a))) (m_edges g).
Definition has_ledge (l : link) (a b : order) : bool :=
  existsb (fun e => (order_eqb (fst e) a && order_eqb (snd e) b) || (order_eqb (fst e) b && order_eqb (snd e) a)) (l_res_edges l).

(* edge labels (_linktype_match: attrs.get('linktype') == attrs.get('linktype'), None = no label) *)
Fixpoint mlabel_in (ls : list (Z * Z * string)) (a b : Z) : option string :=
  match ls with
  | [] => None
  | (x, y, s) :: r => if ((x =? a) && (y =? b)) || ((x =? b) && (y =? a)) then Some s else mlabel_in r a b
  end.
Definition mlabel (g : meta) (a b : Z) : option string := mlabel_in (m_labels g) a b.
Fixpoint llabel_in (ls : list (order * order * string)) (a b : order) : option string :=
  match ls with
  | [] => None
  | (x, y, s) :: r => if (order_eqb x a && order_eqb y b) || (order_eqb x b && order_eqb y a) then Some s else llabel_in r a b
  end.
Definition llabel (l : link) (a b : order) : option string := llabel_in (l_res_labels l) a b.
Definition olabel_eqb (a b : option string) : bool :=
  match a, b with
  | None, None => true
  | Some x, Some y => String.eqb x y
  | _, _ => false
  end.

(* all injective assignments of the link's residues to nodes of the molecule *)
Fixpoint assignments (orders : list order) (nodes : list Z) : list (list (order * Z)) :=
  match orders with
  | [] => [[]]
  | o :: rest =>
    flat_map (fun mu => flat_map (fun n => if existsb (fun p => snd p =? n) mu then [] else [(o, n) :: mu]) nodes)
             (assignments rest nodes)
  end.

Definition induced_ok (g : meta) (l : link) (mu : list (order * Z)) : bool :=
  forallb (fun p => forallb (fun q => if order_eqb (fst p) (fst q) then true
                                      else Bool.eqb (has_ledge l (fst p) (fst q)) (has_medge g (snd p) (snd q)) &&
                                           (if has_ledge l (fst p) (fst q)
                                            then olabel_eqb (llabel l (fst p) (fst q)) (mlabel g (snd p) (snd q))
                                            else true)) mu) mu.

Fixpoint find_mnode (ns : list mnode) (k : Z) : option mnode :=
  match ns with [] => None | n :: r => if mn_key n =? k then Some n else find_mnode r k end.

Definition order_ok (g : meta) (mu : list (order * Z)) : bool :=
  all_pairs_ok (flat_map (fun p => match find_mnode (m_nodes g) (snd p) with
                                    | Some n => [(fst p, mn_resid n)] | None => [] end) mu).

(* matches are applied sorted by key = sorted [(residue id, str(order))] (Python tuple / string order) *)
Fixpoint repeat_str (c : string) (n : nat) : string := match n with O => EmptyString | S k => (c ++ repeat_str c k)%string end.
Definition order_str (o : order) : string :=
  match o with
  | ONum n => NilZero.string_of_int (Z.to_int n)
  | OArrow k => if 0 <? k then repeat_str ">" (Z.to_nat k) else repeat_str "<" (Z.to_nat (- k))
  | OStar k => repeat_str "*" (Z.to_nat k)
  end.
Fixpoint str_leb (a b : string) : bool :=
  match a, b with
  | EmptyString, _ => true
  | String _ _, EmptyString => false
  | String x r, String y t => if Nat.ltb (nat_of_ascii x) (nat_of_ascii y) then true
                              else if Nat.eqb (nat_of_ascii x) (nat_of_ascii y) then str_leb r t else false
  end.
Definition pair_leb (a b : Z * string) : bool :=
  if fst a <? fst b then true else if fst a =? fst b then str_leb (snd a) (snd b) else false.
Fixpoint key_leb (a b : list (Z * string)) : bool :=
  match a, b with
  | [], _ => true
  | _ :: _, [] => false
  | x :: r, y :: t => if pair_leb x y && negb (pair_leb y x) then true
                      else if pair_leb x y && pair_leb y x then key_leb r t else false
  end.
Section Sort.
  Context {A : Type} (leb : A -> A -> bool).
  Fixpoint insert_sorted (x : A) (l : list A) : list A :=
    match l with [] => [x] | y :: r => if leb x y then x :: l else y :: insert_sorted x r end.
  Fixpoint isort_by (l : list A) : list A := match l with [] => [] | x :: r => insert_sorted x (isort_by r) end.
End Sort.
Definition match_key (g : meta) (mu : list (order * Z)) : list (Z * string) :=
  isort_by pair_leb (map (fun p => (match find_mnode (m_nodes g) (snd p) with Some n => mn_resid n | None => 0 end, order_str (fst p))) mu).

Definition residue_matches (g : meta) (l : link) : list (list (order * Z)) :=
  isort_by (fun a b => key_leb (match_key g a) (match_key g b))
           (filter (fun mu => induced_ok g l mu && order_ok g mu)
                   (assignments (l_res_nodes l) (map mn_key (m_nodes g)))).

(* ---- atom-level matching ---- *)
Definition has_attr (a : ratom) (kv : string * string) : bool :=
  existsb (fun kv' => String.eqb (fst kv') (fst kv) && String.eqb (snd kv') (snd kv)) (ra_attrs a).
Definition atom_ok (la : latom) (a : ratom) : bool :=
  String.eqb (ra_name a) (la_name la) && existsb (String.eqb (ra_resname a)) (la_resnames la) &&
  forallb (has_attr a) (la_attrs la).

Fixpoint mu_get (mu : list (order * Z)) (o : order) : option Z :=
  match mu with [] => None | (o', n) :: r => if order_eqb o' o then Some n else mu_get r o end.

(* link atom -> molecule atom, or None when some link atom has zero or several matches *)
Fixpoint match_atoms (g : meta) (mu : list (order * Z)) (las : list latom) : option (list (string * Z)) :=
  match las with
  | [] => Some []
  | la :: rest =>
    match mu_get mu (la_order la) with
    | None => None
    | Some nk =>
      match find_mnode (m_nodes g) nk with
      | None => None
      | Some n =>
        match filter (atom_ok la) (mn_atoms n), match_atoms g mu rest with
        | [a], Some m => Some ((la_key la, ra_key a) :: m)
        | _, _ => None
        end
      end
    end
  end.

Fixpoint lm_get (m : list (string * Z)) (k : string) : option Z :=
  match m with [] => None | (k', a) :: r => if String.eqb k' k then Some a else lm_get r k end.

Definition inst_inter (m : list (string * Z)) (i : linter) : option (ikey * ival) :=
  let atoms := map (lm_get m) (li_atoms i) in
  if forallb (fun x => match x with Some _ => true | None => false end) atoms
  then Some ((li_sec i, flat_map (fun x => match x with Some a => [a] | None => [] end) atoms, li_version i),
             (li_params i, li_meta i))
  else None.

(* the writes of one link: for every residue match with a complete atom match, its interactions *)
Definition link_writes (g : meta) (l : link) : list (ikey * ival) :=
  flat_map (fun mu => match match_atoms g mu (l_atoms l) with
                      | None => []
                      | Some m => flat_map (fun i => match inst_inter m i with Some w => [w] | None => [] end) (l_inters l)
                      end) (residue_matches g l).
Definition link_replaces (g : meta) (l : link) : list (Z * string * string) :=
  flat_map (fun mu => match match_atoms g mu (l_atoms l) with
                      | None => []
                      | Some m => flat_map (fun la => match lm_get m (la_key la) with
                                                      | Some a => map (fun kv => (a, fst kv, snd kv)) (la_replace la)
                                                      | None => [] end) (l_atoms l)
                      end) (residue_matches g l).
Definition link_edges (g : meta) (l : link) : list (Z * Z) :=
  flat_map (fun mu => match match_atoms g mu (l_atoms l) with
                      | None => []
                      | Some m => flat_map (fun e => match lm_get m (fst e), lm_get m (snd e) with
                                                     | Some a, Some b => [(a, b)] | _, _ => [] end) (l_edges l)
                      end) (residue_matches g l).

Definition all_writes (g : meta) (block_inters : list (ikey * ival)) (links : list link) : list (ikey * ival) :=
  (block_inters ++ flat_map (link_writes g) links)%list.

(* run_molecule: block interactions first, then every link in force-field order *)
Definition apply_links (g : meta) (block_inters : list (ikey * ival)) (links : list link) : list (ikey * ival) :=
  fold_left (fun m w => aset m (fst w) (snd w)) (all_writes g block_inters links) [].
