(* C18: what build-file blocks, residue specifications, -split strings and ligand annotation
   select.  polyply/src/build_file_parser.py (BuildDirector), annotate_ligands.py,
   gen_coords.find_starting_node_from_spec, meta_molecule.split_residue. *)
From Coq Require Import ZArith String Ascii List Bool.
Import ListNotations.
Open Scope Z_scope.

(* ---- build file: [ molecule ] name lo hi, then residue-level directives ---- *)
Record rnode := { n_resid : Z; n_resname : string; n_restraints : list nat; n_rw : list nat }.
Inductive kw := Restraint | RwOption.
Record directive := { o_kw : kw; o_resname : string; o_start : Z; o_stop : Z; o_id : nat }.
Record block := { b_name : string; b_lo : Z; b_hi : Z; b_opts : list directive }.

Definition in_range (lo hi x : Z) : bool := (lo <=? x) && (x <? hi).
Definition applies (b : block) (name : string) (idx : Z) : bool := String.eqb (b_name b) name && in_range (b_lo b) (b_hi b) idx.
Definition hits (o : directive) (r : rnode) : bool := String.eqb (n_resname r) (o_resname o) && in_range (o_start o) (o_stop o) (n_resid r).
Definition kw_eqb (a b : kw) : bool := match a, b with Restraint, Restraint | RwOption, RwOption => true | _, _ => false end.

Definition tag (o : directive) (r : rnode) : rnode :=
  if hits o r then
    match o_kw o with
    | Restraint => {| n_resid := n_resid r; n_resname := n_resname r; n_restraints := n_restraints r ++ [o_id o]; n_rw := n_rw r |}
    | RwOption => {| n_resid := n_resid r; n_resname := n_resname r; n_restraints := n_restraints r; n_rw := n_rw r ++ [o_id o] |}
    end
  else r.

(* all directives of the blocks naming this molecule, in file order *)
Definition directives_for (blocks : list block) (name : string) (idx : Z) : list directive :=
  flat_map (fun b => if applies b name idx then b_opts b else []) blocks.
Definition tag_molecule (blocks : list block) (name : string) (idx : Z) (nodes : list rnode) : list rnode :=
  map (fun r => fold_left (fun r o => tag o r) (directives_for blocks name idx) r) nodes.
Fixpoint enum_from {A} (k : Z) (l : list A) : list (Z * A) := match l with [] => [] | x :: r => (k, x) :: enum_from (k + 1) r end.
Definition apply_build (blocks : list block) (mols : list (string * list rnode)) : list (string * list rnode) :=
  map (fun p => (fst (snd p), tag_molecule blocks (fst (snd p)) (fst p) (snd (snd p)))) (enum_from 0 mols).

(* ---- residue specification <mol_name>#<mol_idx>-<resname>#<resid> ---- *)
Fixpoint split1 (c : ascii) (s : string) : string * option string :=
  match s with
  | EmptyString => (EmptyString, None)
  | String a r => if Ascii.eqb a c then (EmptyString, Some r)
                  else let '(x, y) := split1 c r in (String a x, y)
  end.
Record resspec := { s_molname : option string; s_molidx : option string; s_resname : option string; s_resid : option string }.
Definition nonempty (s : string) : option string := match s with EmptyString => None | _ => Some s end.
Definition parse_spec (s : string) : resspec :=
  let '(molpart, respart) := split1 "-" s in
  let '(molname, molidx) := split1 "#" molpart in
  match respart with
  | None => {| s_molname := nonempty molname; s_molidx := molidx; s_resname := None; s_resid := None |}
  | Some rp => let '(resname, resid) := split1 "#" rp in
               {| s_molname := nonempty molname; s_molidx := molidx; s_resname := nonempty resname; s_resid := resid |}
  end.
Definition render_spec (molname : string) (molidx : option string) (res : option (string * option string)) : string :=
  (molname ++ match molidx with Some i => "#" ++ i | None => "" end ++
   match res with Some (rn, rid) => "-" ++ rn ++ match rid with Some i => "#" ++ i | None => "" end | None => "" end)%string.

(* _find_nodes: resname / resid filters when given *)
Definition node_matches (resname : option string) (resid : option Z) (r : rnode) : bool :=
  match resname with Some n => String.eqb (n_resname r) n | None => true end &&
  match resid with Some i => Z.eqb (n_resid r) i | None => true end.
Definition find_nodes (resname : option string) (resid : option Z) (nodes : list (nat * rnode)) : list nat :=
  map fst (filter (fun p => node_matches resname resid (snd p)) nodes).
Definition start_node (resname : option string) (resid : option Z) (nodes : list (nat * rnode)) : option nat :=
  hd_error (find_nodes resname resid nodes).

(* ---- -split <resname>:<new>-<a1>,<a2>:<new2>-<a3> ---- *)
Record atom := { a_id : nat; a_resid : Z; a_resname : string; a_name : string }.
Definition new_name (resname : string) (news : list (string * list string)) (a : atom) : option string :=
  if String.eqb (a_resname a) resname then
    match find (fun nw => existsb (String.eqb (a_name a)) (snd nw)) news with Some nw => Some (fst nw) | None => None end
  else None.
Definition relabel (max_resid : Z) (resname : string) (news : list (string * list string)) (a : atom) : atom :=
  match new_name resname news a with
  | Some n => {| a_id := a_id a; a_resid := a_resid a + max_resid; a_resname := n; a_name := a_name a |}
  | None => a
  end.
Definition split_atoms (max_resid : Z) (resname : string) (news : list (string * list string)) (atoms : list atom) : list atom :=
  map (relabel max_resid resname news) atoms.
Definition names_once (news : list (string * list string)) : bool :=
  let all := flat_map snd news in
  forallb (fun n => Nat.eqb (List.length (filter (String.eqb n) all)) 1) all.

(* ---- ligands: temporary nodes max+1.. marked ligated, removed again by split_ligands ---- *)
Record mnode := { m_key : nat; m_ligated : option (nat * nat) }.
Fixpoint attach (next : nat) (ligs : list (nat * nat)) : list mnode :=
  match ligs with [] => [] | l :: r => {| m_key := next; m_ligated := Some l |} :: attach (S next) r end.
Definition with_ligands (nodes : list mnode) (next : nat) (ligs : list (nat * nat)) : list mnode := (nodes ++ attach next ligs)%list.
Definition detach (nodes : list mnode) : list mnode :=
  filter (fun n => match m_ligated n with Some _ => false | None => true end) nodes.
