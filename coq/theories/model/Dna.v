(* Hand-written executable model of polyply/src/gen_dna.py (complement_dsDNA and
   _dna_edge_iterator) on residue graphs with *ordered* adjacency, as networkx iterates
   them.  The pairing table is a parameter: it is instantiated with the table regenerated
   from the source (Gen_dna.BASE_LIBRARY) in proofs and in the correspondence runs. *)
From Coq Require Import ZArith String List Bool.
Import ListNotations.
Open Scope Z_scope.

Record node := { n_key : Z; n_resid : Z; n_name : string }.
Definition eattr := list (string * string).
Record mg := { g_nodes : list node;                      (* insertion order *)
               g_adj : list (Z * list (Z * eattr));      (* per node, neighbour order *)
               g_maxres : Z }.

Inductive err := ErrKey | ErrIO | ErrFuel.
Inductive result (A : Type) := Ok (a : A) | Err (e : err).
Arguments Ok {A} a. Arguments Err {A} e.

Fixpoint tlookup (t : list (string * string)) (k : string) : option string :=
  match t with
  | [] => None
  | (a, b) :: r => if String.eqb a k then Some b else tlookup r k
  end.

Fixpoint find_node (ns : list node) (k : Z) : option node :=
  match ns with
  | [] => None
  | n :: r => if n_key n =? k then Some n else find_node r k
  end.

Fixpoint adj_of (a : list (Z * list (Z * eattr))) (k : Z) : list (Z * eattr) :=
  match a with
  | [] => []
  | (u, l) :: r => if u =? k then l else adj_of r k
  end.

Fixpoint has_adj (a : list (Z * list (Z * eattr))) (k : Z) : bool :=
  match a with
  | [] => false
  | (u, _) :: r => (u =? k) || has_adj r k
  end.

(* MetaMolecule.add_node(key, resname=...): max_resid += 1; resid := max_resid; an existing
   key keeps its place and gets the new attributes *)
Fixpoint set_node (ns : list node) (n : node) : list node :=
  match ns with
  | [] => [n]
  | m :: r => if n_key m =? n_key n then n :: r else m :: set_node r n
  end.

Definition add_node (g : mg) (k : Z) (name : string) : mg :=
  let r := g_maxres g + 1 in
  {| g_nodes := set_node (g_nodes g) {| n_key := k; n_resid := r; n_name := name |};
     g_adj := if has_adj (g_adj g) k then g_adj g else g_adj g ++ [(k, [])];
     g_maxres := r |}.

(* one direction of networkx add_edge: keep position and data when present, else append *)
Fixpoint nbr_add (l : list (Z * eattr)) (v : Z) : list (Z * eattr) :=
  match l with
  | [] => [(v, [])]
  | (w, d) :: r => if w =? v then l else (w, d) :: nbr_add r v
  end.

Fixpoint adj_update (a : list (Z * list (Z * eattr))) (u : Z) (f : list (Z * eattr) -> list (Z * eattr)) :=
  match a with
  | [] => []
  | (w, l) :: r => if w =? u then (w, f l) :: r else (w, l) :: adj_update r u f
  end.

Definition add_edge (g : mg) (u v : Z) : mg :=
  {| g_nodes := g_nodes g;
     g_adj := adj_update (adj_update (g_adj g) u (fun l => nbr_add l v)) v (fun l => nbr_add l u);
     g_maxres := g_maxres g |}.

Fixpoint attr_set (d : eattr) (k v : string) : eattr :=
  match d with
  | [] => [(k, v)]
  | (a, b) :: r => if String.eqb a k then (a, v) :: r else (a, b) :: attr_set r k v
  end.

Fixpoint nbr_set_attr (l : list (Z * eattr)) (v : Z) (k x : string) : list (Z * eattr) :=
  match l with
  | [] => []
  | (w, d) :: r => if w =? v then (w, attr_set d k x) :: r else (w, d) :: nbr_set_attr r v k x
  end.

(* the data dict of an edge is shared by both directions *)
Definition set_edge_attr (g : mg) (u v : Z) (k x : string) : mg :=
  {| g_nodes := g_nodes g;
     g_adj := adj_update (adj_update (g_adj g) u (fun l => nbr_set_attr l v k x)) v
                         (fun l => nbr_set_attr l u k x);
     g_maxres := g_maxres g |}.

Fixpoint edge_attrs (l : list (Z * eattr)) (v : Z) : eattr :=
  match l with
  | [] => []
  | (w, d) :: r => if w =? v then d else edge_attrs r v
  end.

(* max(meta_molecule.nodes), folded from the key of the last node *)
Definition kmax (g : mg) (k0 : Z) : Z := fold_left Z.max (map n_key (g_nodes g)) k0.

Section Complement.
  Variable table : list (string * string).

  (* the for-loop over neighbours inside _dna_edge_iterator: Some (next, stop) or None *)
  Fixpoint scan (ns : list node) (src_resid first : Z) (nbrs : list (Z * eattr)) : option (Z * bool) :=
    match nbrs with
    | [] => None
    | (nb, _) :: r =>
      match find_node ns nb with
      | None => None
      | Some n =>
        if src_resid - n_resid n =? 1 then Some (nb, false)
        else if (n_resid n >? src_resid) && (nb =? first) then Some (nb, true)
        else scan ns src_resid first r
      end
    end.

  Record st := { s_g : mg; s_corr : list (Z * Z); s_total : Z }.

  Fixpoint corr_get (c : list (Z * Z)) (k : Z) : option Z :=
    match c with
    | [] => None
    | (a, b) :: r => if a =? k then Some b else corr_get r k
    end.

  (* loop body of complement_dsDNA for the yielded edge (prev, next) *)
  Definition body (s : st) (prev next : Z) : result st :=
    let g := s_g s in
    match find_node (g_nodes g) next with
    | None => Err ErrKey
    | Some nn =>
      match tlookup table (n_name nn) with
      | None => Err ErrIO
      | Some cname =>
        match corr_get (s_corr s) prev with
        | None => Err ErrKey
        | Some cprev =>
          let '(g1, new, corr1) :=
            match corr_get (s_corr s) next with
            | None => let new := s_total s + 1 in
                      (add_edge (add_node g new cname) cprev new, new, s_corr s ++ [(next, new)])
            | Some new => (add_edge g cprev new, new, s_corr s)
            end in
          let g2 := fold_left (fun gg kv => set_edge_attr gg cprev new (fst kv) (snd kv))
                              (edge_attrs (adj_of (g_adj g1) prev) next) g1 in
          Ok {| s_g := g2; s_corr := corr1; s_total := s_total s + 1 |}
        end
      end
    end.

  Fixpoint loop (fuel : nat) (s : st) (source first : Z) : result st :=
    match fuel with
    | O => Err ErrFuel
    | S f =>
      match find_node (g_nodes (s_g s)) source with
      | None => Err ErrKey
      | Some sn =>
        match scan (g_nodes (s_g s)) (n_resid sn) first (adj_of (g_adj (s_g s)) source) with
        | None => Ok s
        | Some (nb, stop) =>
          match body s source nb with
          | Err e => Err e
          | Ok s' => if stop then Ok s' else loop f s' nb first
          end
        end
      end
    end.

  Definition complement (g : mg) : result mg :=
    match last (map Some (g_nodes g)) None with
    | None => Err ErrKey           (* list(nodes)[-1] on an empty graph: IndexError *)
    | Some ln =>
      match tlookup table (n_name ln) with
      | None => Err ErrKey         (* plain BASE_LIBRARY[...] KeyError for the last node *)
      | Some cname =>
        let k := n_key ln in
        (* total = max(meta_molecule.nodes) + 1: the keys of the new residues continue after the highest key in use *)
        let m := kmax g k in
        let g1 := add_node g (m + 1) cname in
        match loop (S (S (List.length (g_nodes g)))) {| s_g := g1; s_corr := [(k, m + 1)]; s_total := m + 1 |} k k with
        | Err e => Err e
        | Ok s => Ok (s_g s)
        end
      end
    end.
End Complement.

(* ---- the graphs the sequence readers build ---- *)
Fixpoint linear_nodes (k : Z) (names : list string) : list node :=
  match names with
  | [] => []
  | x :: r => {| n_key := k; n_resid := k + 1; n_name := x |} :: linear_nodes (k + 1) r
  end.
Fixpoint linear_adj (k : Z) (n : Z) (m : nat) : list (Z * list (Z * eattr)) :=
  match m with
  | O => []
  | S m' => (k, (if 0 <? k then [(k - 1, [])] else []) ++ (if k + 1 <? n then [(k + 1, [])] else []))
            :: linear_adj (k + 1) n m'
  end.
Definition linear (names : list string) : mg :=
  let n := Z.of_nat (List.length names) in
  {| g_nodes := linear_nodes 0 names; g_adj := linear_adj 0 n (List.length names); g_maxres := n |}.

(* circular strand as parse_ig + MetaMolecule(graph) build it: the copy re-adds edges node by node, so the last
   residue lists residue 0 (closing edge, labelled) before its predecessor *)
Definition circle_attr : eattr := [("linktype", "circle")]%string.
Fixpoint circular_adj (k : Z) (n : Z) (m : nat) : list (Z * list (Z * eattr)) :=
  match m with
  | O => []
  | S m' => (k, (if (k =? n - 1) && (0 <? k) then [(0, circle_attr)] else []) ++
                (if 0 <? k then [(k - 1, [])] else []) ++ (if k + 1 <? n then [(k + 1, [])] else []) ++
                (if k =? 0 then [(n - 1, circle_attr)] else []))
            :: circular_adj (k + 1) n m'
  end.
Definition circular (names : list string) : mg :=
  let n := Z.of_nat (List.length names) in
  {| g_nodes := linear_nodes 0 names; g_adj := circular_adj 0 n (List.length names); g_maxres := n |}.

(* ---- declarative specification on name sequences ---- *)
Section Spec.
  Variable table : list (string * string).
  Fixpoint comp_all (s : list string) : option (list string) :=
    match s with
    | [] => Some []
    | x :: r => match tlookup table x, comp_all r with
                | Some y, Some ys => Some (y :: ys)
                | _, _ => None
                end
    end.
  (* residue n+k of the completed molecule is the complement of residue n+1-k *)
  Definition comp_strand (s : list string) : option (list string) := comp_all (rev s).
End Spec.
