(* Hand-written executable model of polyply/src/topology.py: bonded-type lookup
   (gen_bonded_interactions, match_dihedral_interaction_types), #define substitution
   (replace_defined_interaction) and the pair table (gen_pairs), on tokens. *)
From Coq Require Import ZArith String List Bool Arith.
Import ListNotations.
Open Scope string_scope.

Definition key := list string.
Definition term := list string.                    (* parameter tokens of one type line *)
Definition table := list (key * list term).        (* keys in first-definition order; terms in order *)

Fixpoint key_eqb (a b : key) : bool :=
  match a, b with
  | [], [] => true
  | x :: r, y :: s => String.eqb x y && key_eqb r s
  | _, _ => false
  end.

Fixpoint tget (t : table) (k : key) : option (list term) :=
  match t with
  | [] => None
  | (k', ts) :: r => if key_eqb k' k then Some ts else tget r k
  end.

(* ---- wildcard matching of dihedral types ---- *)
Fixpoint matches1 (k cand : key) : bool :=
  match k, cand with
  | [], [] => true
  | r :: k', a :: c' => (String.eqb r "X" || String.eqb r a) && matches1 k' c'
  | _, _ => false
  end.
Definition matches (k atoms : key) : bool := matches1 k atoms || matches1 k (rev atoms).
Definition nwild (k : key) : nat := length (filter (fun r => String.eqb r "X") k).

Fixpoint best (atoms : key) (t : table) (acc : option (key * nat)) : option (key * nat) :=
  match t with
  | [] => acc
  | (k, _) :: r =>
    if matches k atoms then
      match acc with
      | None => best atoms r (Some (k, nwild k))
      | Some (_, bw) => if Nat.ltb (nwild k) bw then best atoms r (Some (k, nwild k)) else best atoms r acc
      end
    else best atoms r acc
  end.
Definition match_dih (atoms : key) (t : table) : option key :=
  match best atoms t None with Some (k, _) => Some k | None => None end.

(* ---- lookup of one parameterless interaction ---- *)
Definition lookup (is_dih : bool) (atoms : key) (t : table) : option (list term) :=
  match tget t atoms with
  | Some ts => Some ts
  | None =>
    match tget t (rev atoms) with
    | Some ts => Some ts
    | None => if is_dih then match match_dih atoms t with Some k => tget t k | None => None end else None
    end
  end.

(* ---- #define substitution ---- *)
Fixpoint dget (d : list (string * list string)) (k : string) : option (list string) :=
  match d with
  | [] => None
  | (a, v) :: r => if String.eqb a k then Some v else dget r k
  end.
Definition subst_defines (d : list (string * list string)) (params : list string) : list string :=
  flat_map (fun p => match dget d p with Some v => v | None => [p] end) params.

(* ---- one interaction section of one molecule type ---- *)
Record inter := { i_atoms : list Z; i_types : key; i_params : list string }.
Inductive rerr := NoType (atoms : list Z).

(* returns (updated interactions of the block, interactions appended to every instance) *)
Fixpoint resolve (is_dih : bool) (t : table) (l : list inter) : (list inter * list inter) + rerr :=
  match l with
  | [] => inl ([], [])
  | i :: r =>
    match resolve is_dih t r with
    | inr e => inr e
    | inl (base, extra) =>
      match i_params i with
      | [_] =>
        match lookup is_dih (i_types i) t with
        | None => inr (NoType (i_atoms i))
        | Some [] => inl (i :: base, extra)
        | Some (t0 :: more) =>
          inl ({| i_atoms := i_atoms i; i_types := i_types i; i_params := t0 |} :: base,
               map (fun tm => {| i_atoms := i_atoms i; i_types := i_types i; i_params := tm |}) more ++ extra)%list
        end
      | _ => inl (i :: base, extra)
      end
    end
  end.
(* python order: additional interactions are collected while iterating, so the extras of an
   earlier interaction come first *)
Definition instance_interactions (is_dih : bool) (t : table) (l : list inter) : (list inter) + rerr :=
  match resolve is_dih t l with
  | inr e => inr e
  | inl (base, extra) => inl (base ++ extra)%list
  end.

(* ---- pair table: unordered keys ---- *)
Section Pairs.
  Context {num : Type}.
  Variable comb : num -> num -> num -> num -> num * num.
  Definition pkey_eqb (a b : string * string) : bool :=
    (String.eqb (fst a) (fst b) && String.eqb (snd a) (snd b)) ||
    (String.eqb (fst a) (snd b) && String.eqb (snd a) (fst b)).
  Fixpoint pget (t : list ((string * string) * (num * num))) (k : string * string) : option (num * num) :=
    match t with
    | [] => None
    | (k', v) :: r => if pkey_eqb k' k then Some v else pget r k
    end.
  (* all unordered pairs i < j of the atom-type list, in itertools.combinations order *)
  Fixpoint combos (l : list (string * (num * num))) : list ((string * (num * num)) * (string * (num * num))) :=
    match l with
    | [] => []
    | x :: r => (map (fun y => (x, y)) r ++ combos r)%list
    end.
  Definition gen_pairs (genpairs : bool) (atypes : list (string * (num * num)))
             (explicit : list ((string * string) * (num * num))) : list ((string * string) * (num * num)) :=
    let t1 := if genpairs then
                fold_left (fun acc xy =>
                  let '((a, (a1, a2)), (b, (b1, b2))) := xy in
                  match pget acc (a, b) with
                  | Some _ => acc
                  | None => (acc ++ [((a, b), comb a1 b1 a2 b2)])%list
                  end) (combos atypes) explicit
              else explicit in
    fold_left (fun acc x =>
      let '(a, v) := x in
      match pget acc (a, a) with Some _ => acc | None => (acc ++ [((a, a), v)])%list end) atypes t1.
End Pairs.
