(* C03: what gen_coords writes.  Rows of the output structure = atoms of the expanded
   [ molecules ] list in topology order with a running index and one coordinate each
   (TOPDirector.finalize -> convert_to_vermouth_system -> write_gro); the molecule loop of
   BuildSystem._compose_system with an oracle for the outcome of every placement attempt. *)
From Coq Require Import ZArith String List Bool Arith.
From PV Require Import TopPre.
Import ListNotations.

Record atom := { a_resid : Z; a_resname : string; a_name : string }.
Definition mtypes := list (string * list atom).

Fixpoint lookup (tys : mtypes) (n : string) : option (list atom) :=
  match tys with
  | [] => None
  | (k, v) :: r => if String.eqb k n then Some v else lookup r n
  end.

(* atoms of a list of molecule instances; an unknown molecule name is an error (KeyError) *)
Fixpoint atoms_of (tys : mtypes) (names : list string) : option (list atom) :=
  match names with
  | [] => Some []
  | n :: r => match lookup tys n, atoms_of tys r with
              | Some a, Some b => Some (a ++ b)%list
              | _, _ => None
              end
  end.

Section Rows.
Variable P : Type.                              (* a coordinate *)
Record row := { w_resid : Z; w_resname : string; w_name : string; w_idx : nat; w_pos : P }.

(* pos k = coordinate of the k-th atom of the system (0-based), whatever the placement produced *)
Fixpoint number (k : nat) (l : list atom) (pos : nat -> P) : list row :=
  match l with
  | [] => []
  | a :: r => {| w_resid := a_resid a; w_resname := a_resname a; w_name := a_name a; w_idx := S k; w_pos := pos k |}
              :: number (S k) r pos
  end.

Definition gro_rows (tys : mtypes) (entries : list (string * nat)) (pos : nat -> P) : option (list row) :=
  option_map (fun l => number 0 l pos) (atoms_of tys (expand entries)).
End Rows.
Arguments w_resid {P}. Arguments w_resname {P}. Arguments w_name {P}. Arguments w_idx {P}. Arguments w_pos {P}.
Arguments number {P}. Arguments gro_rows {P}.

(* ---- _compute_box_size: mass of an atom = the mass given in [ atoms ] when there is one
   (whatever its value, 0 for virtual sites included), else the mass of its atom type; neither
   is an error ---- *)
Definition atom_mass {M : Type} (explicit type_mass : option M) : option M :=
  match explicit with Some m => Some m | None => type_mass end.
Fixpoint total_mass {M : Type} (add : M -> M -> M) (zero : M) (atoms : list (option M * option M)) : option M :=
  match atoms with
  | [] => Some zero
  | (e, t) :: r => match atom_mass e t, total_mass add zero r with Some m, Some s => Some (add m s) | _, _ => None end
  end.

(* ---- BuildSystem._compose_system: molecules are visited in order; one already fully
   positioned is skipped; otherwise attempts are made until one succeeds (the oracle says
   which); the index only advances past a positioned molecule ---- *)
Fixpoint compose (fuel : nat) (oracle : nat -> nat -> bool) (attempt : nat) (idx : nat) (done : list bool) : option (list bool) :=
  match fuel with
  | O => None
  | S f =>
    if (length done <=? idx)%nat then Some done
    else if nth idx done false then compose f oracle 0 (S idx) done
    else if oracle idx attempt then
           compose f oracle 0 (S idx) (firstn idx done ++ true :: skipn (S idx) done)%list
         else compose f oracle (S attempt) idx done
  end.
