(* Token-level model of the .itp produced by gen_params (vermouth write_molecule_itp) and of its
   re-reading (TOPDirector -> vermouth read_itp): atoms table, interaction sections with
   #ifdef/#ifndef guards, canonical atom order per section, impropers written as dihedrals.
   A line is a list of tokens; layout (column widths, comments, blank lines) is not modelled. *)
From Coq Require Import ZArith String List Bool Arith.
Import ListNotations.
Open Scope string_scope.

Definition line := list string.
Record arow := { r_type : string; r_resid : string; r_resname : string; r_name : string; r_cg : string;
                 r_charge : option string; r_mass : option string }.
Definition guard := option (string * bool).       (* (macro, true = ifdef / false = ifndef) *)
Record inter := { i_sec : string; i_atoms : list string; i_params : list string; i_guard : guard }.
Record mol := { m_name : string; m_nrexcl : string; m_atoms : list arow; m_inters : list inter }.

(* number of atom tokens of a line of the section *)
Definition arity (sec : string) : option nat :=
  if String.eqb sec "bonds" || String.eqb sec "constraints" || String.eqb sec "pairs" then Some 2%nat
  else if String.eqb sec "angles" then Some 3%nat
  else if String.eqb sec "dihedrals" || String.eqb sec "impropers" then Some 4%nat
  else if String.eqb sec "position_restraints" then Some 1%nat
  else None.
Definition out_section (sec : string) : string := if String.eqb sec "impropers" then "dihedrals" else sec.
(* atoms / parameters of a content line: every token of an [ exclusions ] line is an atom *)
Definition split_line (sec : string) (l : line) : option (list string * list string) :=
  if String.eqb sec "exclusions" then Some (l, [])
  else match arity sec with
       | None => None
       | Some k => if (length l <? k)%nat then None else Some (firstn k l, skipn k l)
       end.

(* ---- writer ---- *)
Definition write_atom (idx : nat) (a : arow) (idxs : string) : line :=
  ([idxs; r_type a; r_resid a; r_resname a; r_name a; r_cg a] ++
   match r_charge a, r_mass a with
   | Some c, Some m => [c; m]
   | Some c, None => [c]
   | None, _ => []
   end)%list.

(* the file groups the interactions of a section by guard: one header per section, one
   #ifdef/#ifndef ... #endif block per guarded group *)
Record grp := { g_guard : guard; g_items : list (list string * list string) }.   (* (atoms, params) *)
Record sect := { c_name : string; c_groups : list grp }.

Definition guard_open (g : guard) : list line :=
  match g with None => [] | Some (m, true) => [["#ifdef"; m]] | Some (m, false) => [["#ifndef"; m]] end.
Definition guard_close (g : guard) : list line := match g with None => [] | Some _ => [["#endif"]] end.
Definition body (it : list string * list string) : line := (fst it ++ snd it)%list.
Definition write_group (g : grp) : list line :=
  (guard_open (g_guard g) ++ map body (g_items g) ++ guard_close (g_guard g))%list.
Definition write_sect (c : sect) : list line :=
  ["["; out_section (c_name c); "]"] :: flat_map write_group (c_groups c).

Definition inters_of_group (sec : string) (g : grp) : list inter :=
  map (fun it => {| i_sec := sec; i_atoms := fst it; i_params := snd it; i_guard := g_guard g |}) (g_items g).
Definition inters_of_sect (c : sect) : list inter := flat_map (inters_of_group (c_name c)) (c_groups c).

Definition write (idx_names : list string) (name nrexcl : string) (atoms : list arow) (sects : list sect) : list line :=
  ([["["; "moleculetype"; "]"]; [name; nrexcl]; ["["; "atoms"; "]"]] ++
   map (fun p => write_atom 0 (snd p) (fst p)) (combine idx_names atoms) ++
   flat_map write_sect sects)%list.
Definition mol_of (name nrexcl : string) (atoms : list arow) (sects : list sect) : mol :=
  {| m_name := name; m_nrexcl := nrexcl; m_atoms := atoms; m_inters := flat_map inters_of_sect sects |}.

(* ---- reader ---- *)
Record rst := { s_sec : string; s_guard : guard; s_name : option (string * string);
                s_atoms : list arow; s_inters : list inter }.

Definition set_sec (s : rst) (sec : string) : rst :=
  {| s_sec := sec; s_guard := s_guard s; s_name := s_name s; s_atoms := s_atoms s; s_inters := s_inters s |}.
Definition set_guard (s : rst) (g : guard) : rst :=
  {| s_sec := s_sec s; s_guard := g; s_name := s_name s; s_atoms := s_atoms s; s_inters := s_inters s |}.

Inductive lkind := KHeader (sec : string) | KIfdef (m : string) | KIfndef (m : string) | KEndif | KContent.
Definition classify (l : line) : lkind :=
  match l with
  | [a] => if String.eqb a "#endif" then KEndif else KContent
  | [a; b] => if String.eqb a "#ifdef" then KIfdef b else if String.eqb a "#ifndef" then KIfndef b else KContent
  | [a; b; c] => if String.eqb a "[" && String.eqb c "]" then KHeader b else KContent
  | _ => KContent
  end.

Definition read_content (s : rst) (l : line) : option rst :=
  if String.eqb (s_sec s) "moleculetype" then
    match l with
    | [n; x] => Some {| s_sec := s_sec s; s_guard := s_guard s; s_name := Some (n, x); s_atoms := s_atoms s; s_inters := s_inters s |}
    | _ => None
    end
  else if String.eqb (s_sec s) "atoms" then
    match l with
    | _ :: t :: ri :: rn :: n :: cg :: rest =>
      match rest with
      | _ :: _ :: _ :: _ => None
      | _ =>
        let '(c, m) := match rest with [c] => (Some c, None) | [c; m] => (Some c, Some m) | _ => (None, None) end in
        Some {| s_sec := s_sec s; s_guard := s_guard s; s_name := s_name s;
                s_atoms := (s_atoms s ++ [{| r_type := t; r_resid := ri; r_resname := rn; r_name := n; r_cg := cg; r_charge := c; r_mass := m |}])%list;
                s_inters := s_inters s |}
      end
    | _ => None
    end
  else
    match split_line (s_sec s) l with
    | None => None
    | Some (ats, ps) =>
      Some {| s_sec := s_sec s; s_guard := s_guard s; s_name := s_name s; s_atoms := s_atoms s;
              s_inters := (s_inters s ++ [{| i_sec := s_sec s; i_atoms := ats; i_params := ps; i_guard := s_guard s |}])%list |}
    end.

Definition read_line (s : rst) (l : line) : option rst :=
  match classify l with
  | KHeader sec => Some (set_sec s sec)
  | KIfdef m => match s_guard s with None => Some (set_guard s (Some (m, true))) | Some _ => None end
  | KIfndef m => match s_guard s with None => Some (set_guard s (Some (m, false))) | Some _ => None end
  | KEndif => match s_guard s with Some _ => Some (set_guard s None) | None => None end
  | KContent => read_content s l
  end.

Fixpoint read_lines (s : rst) (ls : list line) : option rst :=
  match ls with
  | [] => Some s
  | l :: r => match read_line s l with Some s' => read_lines s' r | None => None end
  end.

Definition read (ls : list line) : option mol :=
  match read_lines {| s_sec := ""; s_guard := None; s_name := None; s_atoms := []; s_inters := [] |} ls with
  | Some s => match s_guard s, s_name s with
              | None, Some (n, x) => Some {| m_name := n; m_nrexcl := x; m_atoms := s_atoms s; m_inters := s_inters s |}
              | _, _ => None
              end
  | None => None
  end.

(* what survives the trip: impropers come back as dihedrals *)
Definition canon_inter (i : inter) : inter :=
  {| i_sec := out_section (i_sec i); i_atoms := i_atoms i; i_params := i_params i; i_guard := i_guard i |}.
Definition canon (m : mol) : mol :=
  {| m_name := m_name m; m_nrexcl := m_nrexcl m; m_atoms := m_atoms m; m_inters := map canon_inter (m_inters m) |}.
