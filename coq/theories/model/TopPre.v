(* Hand-written executable model of polyply/src/top_parser.py TOPDirector (+ the line
   handling of vermouth's LineParser / SectionLineParser): comment stripping, pragma state
   machine (#define / #ifdef / #ifndef / #else / #endif / #include / #error), section stack,
   collection of molecule-type blocks, recursive includes with a fresh director per file,
   finalisation.  Observables: defaults, defines, content lines of the top-level sections,
   molecule-type blocks in the order they are handed to the itp reader, [molecules] entries
   in the order they are instantiated. *)
From Coq Require Import String Ascii List Bool Arith.
Import ListNotations.
Open Scope string_scope.

(* ---------------------------------------------------------------- text utilities *)
Definition is_ws (c : ascii) : bool :=
  match c with
  | " "%char | "009"%char | "010"%char | "011"%char | "012"%char | "013"%char => true
  | _ => false
  end.

Fixpoint lstrip (s : string) : string :=
  match s with
  | String c r => if is_ws c then lstrip r else s
  | EmptyString => EmptyString
  end.
Fixpoint rev_str (s acc : string) : string :=
  match s with EmptyString => acc | String c r => rev_str r (String c acc) end.
Definition rstrip (s : string) : string := rev_str (lstrip (rev_str s "")) "".
Definition strip (s : string) : string := rstrip (lstrip s).

Fixpoint before (ch : ascii) (s : string) : string :=
  match s with
  | EmptyString => EmptyString
  | String c r => if Ascii.eqb c ch then EmptyString else String c (before ch r)
  end.
(* LineParser.parse: split_comments(line, ';')[0].strip() *)
Definition clean (s : string) : string := strip (before ";"%char s).

(* str.split() *)
Fixpoint tokens_aux (s cur : string) : list string :=
  match s with
  | EmptyString => match cur with EmptyString => [] | _ => [rev_str cur ""] end
  | String c r =>
    if is_ws c then match cur with EmptyString => tokens_aux r "" | _ => rev_str cur "" :: tokens_aux r "" end
    else tokens_aux r (String c cur)
  end.
Definition tokens (s : string) : list string := tokens_aux s "".

Definition starts (p s : string) : bool := String.prefix p s.
Fixpoint last_char (s : string) (d : ascii) : ascii :=
  match s with EmptyString => d | String c r => last_char r c end.

(* line.strip('[ ]').casefold() for names made of lower-case letters, digits and '_' *)
Fixpoint lstrip_br (s : string) : string :=
  match s with
  | String c r => if Ascii.eqb c "["%char || Ascii.eqb c " "%char || Ascii.eqb c "]"%char then lstrip_br r else s
  | EmptyString => EmptyString
  end.
Definition section_name (s : string) : string := rev_str (lstrip_br (rev_str (lstrip_br s) "")) "".

Fixpoint dirname_aux (s acc best : string) : string :=
  match s with
  | EmptyString => rev_str best ""
  | String c r => if Ascii.eqb c "/"%char then dirname_aux r (String c acc) acc else dirname_aux r (String c acc) best
  end.
Definition dirname (p : string) : string := dirname_aux p "" "".
Definition unquote (s : string) : string :=
  let f := fix f (t : string) := match t with String c r => if Ascii.eqb c """"%char then f r else t | EmptyString => t end in
  rev_str (f (rev_str (f s) "")) "".
Definition join (d p : string) : string := if starts "/" p then p else d ++ "/" ++ p.

(* ---------------------------------------------------------------- director *)
Inductive err := ErrIO | ErrNotImpl | ErrKey | ErrFuel.
Inductive result (A : Type) := Ok (a : A) | Err (e : err).
Arguments Ok {A} a. Arguments Err {A} e.

Fixpoint slist_eqb (a b : list string) : bool :=
  match a, b with
  | [], [] => true
  | x :: r, y :: s => String.eqb x y && slist_eqb r s
  | _, _ => false
  end.
Definition mem_sec (k : list string) (known : list (list string)) : bool := existsb (slist_eqb k) known.

(* what all directors of one read share (the Topology object) *)
Record shared := {
  sh_defaults : list (list string);
  sh_defines : list (string * list string);
  sh_content : list (string * list string * option (string * bool));   (* (section, tokens, conditional open when read) *)
  sh_blocks : list (list string);                 (* molecule-type blocks handed to read_itp *)
  sh_mols : list (string * string)                (* [molecules] entries in the order they are read.  Every director keeps its own
                                                     list and hands it to the director of the including file when it finishes
                                                     (parent.molecules.extend), so the entries of the whole include tree form one
                                                     list in textual order; the model keeps that one list *)
}.
Definition sh_empty : shared :=
  {| sh_defaults := []; sh_defines := []; sh_content := []; sh_blocks := []; sh_mols := [] |}.

Record dstate := {
  d_sec : list string;
  d_meta : option (string * bool);                (* (tag, true = ifdef / false = ifndef) *)
  d_itp : option (list string);                   (* None until the first [ moleculetype ] *)
  d_itps : list (list string);
  d_sh : shared
}.

Fixpoint dset (d : list (string * list string)) (k : string) (v : list string) :=
  match d with
  | [] => [(k, v)]
  | (a, b) :: r => if String.eqb a k then (a, v) :: r else (a, b) :: dset r k v
  end.
Definition defined (d : list (string * list string)) (k : string) : bool :=
  existsb (fun kv => String.eqb (fst kv) k) d.

Definition itp_nonempty (s : dstate) : bool := match d_itp s with Some (_ :: _) => true | _ => false end.
Definition itp_append (s : dstate) (line : string) : dstate :=
  {| d_sec := d_sec s; d_meta := d_meta s;
     d_itp := match d_itp s with Some l => Some (l ++ [line])%list | None => Some [line] end;
     d_itps := d_itps s; d_sh := d_sh s |}.
Definition with_meta (s : dstate) (m : option (string * bool)) : dstate :=
  {| d_sec := d_sec s; d_meta := m; d_itp := d_itp s; d_itps := d_itps s; d_sh := d_sh s |}.
Definition with_sh (s : dstate) (sh : shared) : dstate :=
  {| d_sec := d_sec s; d_meta := d_meta s; d_itp := d_itp s; d_itps := d_itps s; d_sh := sh |}.

(* is the enclosing conditional (if any) active for the macros defined so far *)
Definition active (s : dstate) : bool :=
  match d_meta s with
  | None => true
  | Some (tag, true) => defined (sh_defines (d_sh s)) tag
  | Some (tag, false) => negb (defined (sh_defines (d_sh s)) tag)
  end.

Section Director.
  Variable known : list (list string).                 (* METH_DICT keys (regenerated) *)
  Variable fs : string -> option (list string).        (* files: path -> raw lines *)

  (* SectionLineParser.parse_header: push, then drop intermediate names until known *)
  Fixpoint settle (fuel : nat) (sec : list string) : list string :=
    match fuel with
    | O => sec
    | S f =>
      if mem_sec sec known then sec
      else match rev sec with
           | lastn :: _ :: rest => settle f (rev rest ++ [lastn])%list
           | _ => sec
           end
    end.

  Definition block_name (b : list string) : option string :=
    match b with
    | _ :: l :: _ => match tokens l with n :: _ => Some n | [] => None end
    | _ => None
    end.

  Definition do_header (s : dstate) (line : string) : dstate :=
    let sec := settle (S (length (d_sec s))) (d_sec s ++ [section_name line])%list in
    let s1 := {| d_sec := sec; d_meta := d_meta s; d_itp := d_itp s; d_itps := d_itps s; d_sh := d_sh s |} in
    let s2 := if slist_eqb sec ["moleculetype"] then
                {| d_sec := sec; d_meta := d_meta s1;
                   d_itp := Some [];
                   d_itps := if itp_nonempty s1 then (d_itps s1 ++ [match d_itp s1 with Some l => l | None => [] end])%list else d_itps s1;
                   d_sh := d_sh s1 |}
              else s1 in
    match d_itp s2 with Some _ => itp_append s2 line | None => s2 end.

  Definition do_content (s : dstate) (line : string) : result dstate :=
    let sec := d_sec s in
    if negb (mem_sec sec known) then Err ErrIO else
    match sec with
    | "moleculetype" :: _ => Ok (itp_append s line)
    | ["defaults"] =>
      match tokens line with
      | "2" :: _ => Err ErrIO
      | t => let sh := d_sh s in
             Ok (with_sh s {| sh_defaults := (sh_defaults sh ++ [t])%list; sh_defines := sh_defines sh; sh_content := sh_content sh;
                              sh_blocks := sh_blocks sh; sh_mols := sh_mols sh |})
      end
    | ["molecules"] =>
      match tokens line with
      | [n; c] => let sh := d_sh s in
                  Ok (with_sh s {| sh_defaults := sh_defaults sh; sh_defines := sh_defines sh; sh_content := sh_content sh;
                                   sh_blocks := sh_blocks sh; sh_mols := (sh_mols sh ++ [(n, c)])%list |})
      | _ => Err ErrIO
      end
    | [name] =>
      if String.eqb name "implicit_genborn_params" || String.eqb name "cmaptypes" || String.eqb name "macros" then Ok s
      else let sh := d_sh s in
           Ok (with_sh s {| sh_defaults := sh_defaults sh; sh_defines := sh_defines sh;
                            sh_content := (sh_content sh ++ [(name, tokens line, d_meta s)])%list;
                            sh_blocks := sh_blocks sh; sh_mols := sh_mols sh |})
    | _ => Err ErrIO
    end.

  (* vermouth's itp reader applies the same conditional discipline inside a molecule-type block:
     no nesting, no stray #else / #endif, closed at the end; any other pragma is an error *)
  Fixpoint block_ok (ls : list string) (open_ : bool) : bool :=
    match ls with
    | [] => negb open_
    | l :: r =>
      if starts "#" l then
        if String.eqb l "#endif" then open_ && block_ok r false
        else if starts "#else" l then open_ && block_ok r open_
        else if starts "#ifdef" l || starts "#ifndef" l then negb open_ && block_ok r true
        else false
      else block_ok r open_
    end.

  (* finalize of one director; only the director of the outermost file (top = true) instantiates the molecule list *)
  Definition finalize (top : bool) (s : dstate) : result shared :=
    let itps := if itp_nonempty s then (d_itps s ++ [match d_itp s with Some l => l | None => [] end])%list else d_itps s in
    match d_meta s with
    | Some _ => Err ErrIO
    | None =>
      let sh := d_sh s in
      let blocks := (sh_blocks sh ++ itps)%list in
      let names := flat_map (fun b => match block_name b with Some n => [n] | None => [] end) blocks in
      if negb (forallb (fun b => block_ok b false) itps) then Err ErrIO else
      if negb top || forallb (fun nc => existsb (String.eqb (fst nc)) names) (sh_mols sh)
      then Ok {| sh_defaults := sh_defaults sh; sh_defines := sh_defines sh; sh_content := sh_content sh;
                 sh_blocks := blocks; sh_mols := sh_mols sh |}
      else Err ErrKey
    end.

  Definition fresh (sh : shared) : dstate :=
    {| d_sec := []; d_meta := None; d_itp := None; d_itps := []; d_sh := sh |}.

  (* one cleaned, non-empty line; `rd` reads an included file (a whole new director) *)
  Definition do_line (rd : string -> list string -> shared -> result shared) (cwdir : string)
             (s : dstate) (line : string) : result dstate :=
    if starts "#" line then
      if String.eqb line "#endif" then
        if itp_nonempty s then Ok (itp_append s line)
        else match d_meta s with None => Err ErrIO | Some _ => Ok (with_meta s None) end
      else if starts "#else" line then
        if itp_nonempty s then Ok (itp_append s line)
        else match d_meta s with None => Err ErrIO | Some (t, c) => Ok (with_meta s (Some (t, negb c))) end
      else if starts "#ifdef" line || starts "#ifndef" line then
        if itp_nonempty s then Ok (itp_append s line)
        else match d_meta s with
             | Some _ => Err ErrIO
             | None => match tokens line with
                       | [c; t] => Ok (with_meta s (Some (t, String.eqb c "#ifdef")))
                       | _ => Err ErrIO
                       end
             end
      else match tokens line with
           | "#define" :: rest =>
             match rest with
             | [] => Err ErrIO
             | tag :: params =>
               let sh := d_sh s in
               Ok (with_sh s {| sh_defaults := sh_defaults sh; sh_defines := dset (sh_defines sh) tag params;
                                sh_content := sh_content sh; sh_blocks := sh_blocks sh; sh_mols := sh_mols sh |})
             end
           | "#include" :: p :: _ =>
             if active s then
               let path := unquote p in
               let filename := if String.eqb cwdir "" then path else join cwdir path in
               match fs filename with
               | None => Err ErrIO
               | Some ls => match rd (dirname filename) ls (d_sh s) with
                            | Ok sh => Ok (with_sh s sh)
                            | Err e => Err e
                            end
               end
             else Ok s
           | "#include" :: [] => Err ErrIO
           | "#error" :: _ => if active s then Err ErrNotImpl else Ok s
           | _ => Err ErrIO
           end
    else if starts "*" line then Ok s
    else if starts "[" line then
      if Ascii.eqb (last_char line " "%char) "]"%char then Ok (do_header s line) else Err ErrIO
    else do_content s line.

  Fixpoint do_lines (rd : string -> list string -> shared -> result shared) (cwdir : string)
           (s : dstate) (ls : list string) : result dstate :=
    match ls with
    | [] => Ok s
    | raw :: r =>
      let line := clean raw in
      if String.eqb line "" then do_lines rd cwdir s r
      else match do_line rd cwdir s line with
           | Ok s' => do_lines rd cwdir s' r
           | Err e => Err e
           end
    end.

  Fixpoint read (fuel : nat) (cwdir : string) (ls : list string) (sh : shared) : result shared :=
    match fuel with
    | O => Err ErrFuel
    | S f =>
      match do_lines (read f) cwdir (fresh sh) ls with
      | Ok s => finalize false s
      | Err e => Err e
      end
    end.

  (* the outermost file *)
  Definition read_top (fuel : nat) (cwdir : string) (ls : list string) (sh : shared) : result shared :=
    match do_lines (read fuel) cwdir (fresh sh) ls with
    | Ok s => finalize true s
    | Err e => Err e
    end.
End Director.

(* [molecules] expansion: `for idx in range(int(n))` per entry, in order *)
Definition expand (entries : list (string * nat)) : list string :=
  flat_map (fun e => repeat (fst e) (snd e)) entries.
