(* Hand-written executable model of MapToMolecule.add_blocks for single-residue blocks
   (polyply/src/map_to_molecule.py:204-278) on top of vermouth's Block.to_molecule and
   Molecule.merge_molecule: atoms re-indexed, residue ids and charge groups offset by those of
   the highest-index atom, interactions re-keyed. *)
From Coq Require Import ZArith String List Bool.
Import ListNotations.
Open Scope Z_scope.

Record atom := { a_name : string; a_type : string; a_resid : Z; a_resname : string; a_cg : Z;
                 a_charge : string; a_mass : string }.
Record inter := { i_sec : string; i_atoms : list Z; i_params : list string; i_meta : list (string * string) }.
Record block := { b_atoms : list atom; b_inters : list inter; b_nrexcl : Z }.
Record mol := { m_atoms : list (Z * atom); m_inters : list inter }.

Definition with_resid (a : atom) (r : Z) : atom :=
  {| a_name := a_name a; a_type := a_type a; a_resid := r; a_resname := a_resname a; a_cg := a_cg a;
     a_charge := a_charge a; a_mass := a_mass a |}.
Definition shift_atom (a : atom) (dres dcg : Z) : atom :=
  {| a_name := a_name a; a_type := a_type a; a_resid := a_resid a + dres; a_resname := a_resname a;
     a_cg := a_cg a + dcg; a_charge := a_charge a; a_mass := a_mass a |}.
Definition shift_inter (off : Z) (i : inter) : inter :=
  {| i_sec := i_sec i; i_atoms := map (fun x => x + off) (i_atoms i); i_params := i_params i; i_meta := i_meta i |}.

Fixpoint number (k : Z) (l : list atom) : list (Z * atom) :=
  match l with
  | [] => []
  | a :: r => (k, a) :: number (k + 1) r
  end.

(* Block.to_molecule() followed by nx.set_node_attributes(new_mol, resid, "resid") *)
Definition first_block (b : block) (resid : Z) : mol :=
  {| m_atoms := number 0 (map (fun a => with_resid a resid) (b_atoms b)); m_inters := b_inters b |}.

Definition max_key (l : list (Z * atom)) : Z := fold_left (fun m ka => Z.max m (fst ka)) l (-1).
(* the atom with the highest index *)
Fixpoint atom_at (l : list (Z * atom)) (k : Z) : option atom :=
  match l with
  | [] => None
  | (k', a) :: r => if k' =? k then Some a else atom_at r k
  end.

(* Molecule.merge_molecule(block) *)
Definition merge (m : mol) (b : block) : mol :=
  let off := max_key (m_atoms m) in
  let '(dres, dcg) := match atom_at (m_atoms m) off with
                      | Some a => (a_resid a, a_cg a)
                      | None => (0, 0)
                      end in
  {| m_atoms := (m_atoms m ++ number (off + 1) (map (fun a => shift_atom a dres dcg) (b_atoms b)))%list;
     m_inters := (m_inters m ++ map (shift_inter (off + 1)) (b_inters b))%list |}.

(* residues sorted by residue id: the first one fixes the numbering *)
Definition add_blocks (r0 : Z) (blocks : list block) : option mol :=
  match blocks with
  | [] => None
  | b :: rest => Some (fold_left merge rest (first_block b r0))
  end.

(* ---- declarative layout ---- *)
Definition last_cg (b : block) : Z := match rev (b_atoms b) with a :: _ => a_cg a | [] => 0 end.
Definition blen (b : block) : Z := Z.of_nat (length (b_atoms b)).

Fixpoint spec_atoms (idx r cgoff : Z) (blocks : list block) : list (Z * atom) :=
  match blocks with
  | [] => []
  | b :: rest =>
    (number idx (map (fun a => shift_atom (with_resid a r) 0 cgoff) (b_atoms b)) ++
     spec_atoms (idx + blen b) (r + 1) (cgoff + last_cg b) rest)%list
  end.
Fixpoint spec_inters (idx : Z) (blocks : list block) : list inter :=
  match blocks with
  | [] => []
  | b :: rest => (map (shift_inter idx) (b_inters b) ++ spec_inters (idx + blen b) rest)%list
  end.

(* ---- multi-residue blocks (nodes labelled from_itp): the same merges; the first block keeps
   its own residue numbering shifted so that its smallest residue id becomes the first
   residue id of the molecule; a block with several residue ids that is not labelled from_itp
   is rejected (MultiblockError) ---- *)
Definition min_resid (b : block) : Z :=
  match b_atoms b with [] => 0 | a :: r => fold_left (fun m x => Z.min m (a_resid x)) r (a_resid a) end.
Definition nresid (b : block) : nat := length (nodup Z.eq_dec (map a_resid (b_atoms b))).

Definition first_block_m (from_itp : bool) (b : block) (resid : Z) : mol :=
  if from_itp
  then {| m_atoms := number 0 (map (fun a => shift_atom a (resid - min_resid b) 0) (b_atoms b)); m_inters := b_inters b |}
  else first_block b resid.

(* one entry per block instance in residue-id order: (labelled from_itp, block) *)
Definition add_blocks_m (r0 : Z) (blocks : list (bool * block)) : option mol :=
  if existsb (fun fb => negb (fst fb) && Nat.ltb 1 (nresid (snd fb))) blocks then None
  else match blocks with
       | [] => None
       | (f, b) :: rest => Some (fold_left merge (map snd rest) (first_block_m f b r0))
       end.

Definition last_resid (b : block) : Z := match rev (b_atoms b) with a :: _ => a_resid a | [] => 0 end.

(* declarative layout: every block shifted by the residue id and charge group reached so far *)
Fixpoint spec_atoms_m (idx dres cgoff : Z) (blocks : list block) : list (Z * atom) :=
  match blocks with
  | [] => []
  | b :: rest =>
    (number idx (map (fun a => shift_atom a dres cgoff) (b_atoms b)) ++
     spec_atoms_m (idx + blen b) (dres + last_resid b) (cgoff + last_cg b) rest)%list
  end.
