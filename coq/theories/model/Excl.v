(* Hand-written executable model of apply_links.expand_excl with graph_utils.neighborhood
   (polyply/src/apply_links.py:32-58, graph_utils.py:21-47) and of map_to_molecule.tag_exclusions:
   atoms tagged with the exclusion distance of their own block, molecule-wide distance = minimum. *)
From Coq Require Import ZArith List Bool Arith Lia.
From PV Require Import Graph.
Import ListNotations.
Open Scope Z_scope.

Definition memz (x : Z) (l : list Z) : bool := existsb (Z.eqb x) l.

Definition pair_eqb (p q : Z * Z) : bool :=
  ((fst p =? fst q) && (snd p =? snd q)) || ((fst p =? snd q) && (snd p =? fst q)).
Definition pair_in (p : Z * Z) (had : list (Z * Z)) : bool := existsb (pair_eqb p) had.

(* len(shortest path) >= min_length, i.e. distance >= min_length - 1 *)
Definition far (g : graph) (a b : Z) (mn : nat) : bool :=
  match mn with
  | O | S O => true
  | S (S j) => negb (memz b (ball g a j))
  end.

(* neighborhood(molecule, node, max_length=excl, min_length=nrexcl) without the node itself *)
Definition hood (g : graph) (a : Z) (mn mx : nat) : list Z :=
  filter (fun b => far g a b mn && negb (b =? a)) (ball g a mx).

Definition add_pairs (a : Z) (cand : list Z) (had : list (Z * Z)) : list (Z * Z) :=
  fold_left (fun h b => if pair_in (a, b) h then h else (h ++ [(a, b)])%list) cand had.

Fixpoint expand_excl (g : graph) (nrexcl : nat) (tags : list (Z * nat)) (had : list (Z * Z)) : list (Z * Z) :=
  match tags with
  | [] => had
  | (a, e) :: r =>
    if (nrexcl <? e)%nat then expand_excl g nrexcl r (add_pairs a (hood g a nrexcl e) had)
    else expand_excl g nrexcl r had
  end.

(* tag_exclusions: one value per residue block; tags only when the values differ *)
Definition min_list (l : list nat) : nat := fold_left Nat.min l (hd 0%nat l).
Definition all_equal (l : list nat) : bool := match l with [] => true | x :: r => forallb (Nat.eqb x) r end.
(* atoms : (atom, exclusion distance of its block) *)
Definition tag_exclusions (atoms : list (Z * nat)) : nat * list (Z * nat) :=
  let vals := map snd atoms in
  if all_equal vals then (hd 0%nat vals, []) else (min_list vals, atoms).

Definition generated (g : graph) (atoms : list (Z * nat)) : nat * list (Z * Z) :=
  let '(m, tags) := tag_exclusions atoms in (m, expand_excl g m tags []).
