(* C10 -- every residue-graph edge is realised by a bond or reported as missing.
   Statements only; every proof is `exact <lemma>`; Print Assumptions under each. *)
From Coq Require Import ZArith List Bool Arith.
From PV Require Import Graph Missing C10_missing.
Import ListNotations.
Open Scope Z_scope.

(* for every molecule graph and every pair of residues whose fragment graphs hold the
   residue's atoms and only molecule edges between them: a missing-link record is produced
   for the residue-graph edge iff no atom-level edge joins the two residues *)
Theorem C10_missing_iff_no_atom_edge : forall mol rs res_edges ea eb ra rb,
  find_res rs ea = Some ra -> find_res rs eb = Some rb ->
  ResGraphInv mol ra -> ResGraphInv mol rb -> (forall x, In x (r_nodes ra) -> ~ In x (r_nodes rb)) ->
  In (ea, eb) res_edges ->
  (In (ea, eb) (missing mol rs res_edges) <->
   forall u v, In u (r_nodes ra) -> In v (r_nodes rb) -> ~ adjacent mol u v).
Proof. exact missing_iff_no_atom_edge. Qed.
Print Assumptions C10_missing_iff_no_atom_edge.

(* the degree filter loses no atom with an edge leaving its residue *)
Theorem C10_filter_keeps_crossing_atoms : forall mol r u v,
  ResGraphInv mol r -> In u (r_nodes r) -> ~ In v (r_nodes r) -> adjacent mol u v -> In u (allowed mol r).
Proof. exact allowed_of_crossing. Qed.
Print Assumptions C10_filter_keeps_crossing_atoms.

(* the property as stated: every residue-graph edge is realised by a bond (exhibited) or
   reported as missing -- exactly one of the two *)
Theorem C10_realised_or_reported : forall mol rs res_edges ea eb ra rb,
  find_res rs ea = Some ra -> find_res rs eb = Some rb ->
  ResGraphInv mol ra -> ResGraphInv mol rb -> (forall x, In x (r_nodes ra) -> ~ In x (r_nodes rb)) ->
  In (ea, eb) res_edges ->
  ((exists u v, In u (r_nodes ra) /\ In v (r_nodes rb) /\ adjacent mol u v) /\ ~ In (ea, eb) (missing mol rs res_edges)) \/
  (In (ea, eb) (missing mol rs res_edges) /\ forall u v, In u (r_nodes ra) -> In v (r_nodes rb) -> ~ adjacent mol u v).
Proof. exact realised_or_reported. Qed.
Print Assumptions C10_realised_or_reported.

(* the records are a sub-sequence of the residue-graph edges in their order, at most one per
   edge, whatever the number of edges (no cap), and additive over the edge list *)
Theorem C10_reports_follow_edges : forall mol rs res_edges,
  (forall e, In e (missing mol rs res_edges) -> In e res_edges) /\
  (NoDup res_edges -> NoDup (missing mol rs res_edges)) /\
  (List.length (missing mol rs res_edges) <= List.length res_edges)%nat /\
  (forall a b, missing mol rs (a ++ b) = missing mol rs a ++ missing mol rs b)%list.
Proof. exact missing_shape. Qed.
Print Assumptions C10_reports_follow_edges.

Example C10_nonvacuous :
  let rs := [{| r_key := 0; r_nodes := [0; 1]; r_edges := [(0, 1)] |}; {| r_key := 1; r_nodes := [2]; r_edges := [] |};
             {| r_key := 2; r_nodes := [3]; r_edges := [] |}] in
  missing [(0, 1); (1, 2)] rs [(0, 1); (1, 2)] = [(1, 2)].
Proof. exact ex_missing. Qed.
