(* C06 -- Backmapping places rigid, centred, same-handed copies of the residue template.
   Statements only; every proof is `exact <lemma>`; Print Assumptions under each. *)
From Coq Require Import Reals List ZArith String Permutation.
From PV Require Import RNum Rot Backmap Gen_linalg_R Gen_backmap_R C06_backmap.
Import ListNotations.
Open Scope R_scope.

(* (T) the rotation as written in linalg_functions._rotate_xyz is, for every angle triple,
   multiplication of every column by one orthogonal matrix of determinant 1 *)
Theorem C06_rotation_proper : forall sx cx sy cy sz cz : R,
  cx*cx + sx*sx = 1 -> cy*cy + sy*sy = 1 -> cz*cz + sz*sz = 1 ->
  exists M, (forall cols, rotate_xyz cols sx cx sy cy sz cz = mcols M cols) /\ orth M /\ mdet M = 1.
Proof. exact rot_proper. Qed.
Print Assumptions C06_rotation_proper.

(* (T) the placement expression of backmap.py is cg + fudge * v *)
Theorem C06_placement_affine : forall cg v f, place_atom cg v f = vadd cg (vscale f v).
Proof. exact place_atom_affine. Qed.
Print Assumptions C06_placement_affine.

(* all copies congruent to the scaled template: pair distances *)
Theorem C06_congruent : forall M f cg a b, orth M ->
  vnorm (vsub (placeM M f cg a) (placeM M f cg b)) = Rabs f * vnorm (vsub a b).
Proof. exact congruent_norm. Qed.
Print Assumptions C06_congruent.

(* handedness: signed volume scales by fudge^3 * det M *)
Theorem C06_same_handed : forall M f cg a b c d,
  let P := placeM M f cg in
  vdot (vsub (P b) (P a)) (vcross (vsub (P c) (P a)) (vsub (P d) (P a)))
  = f * f * f * mdet M * vdot (vsub b a) (vcross (vsub c a) (vsub d a)).
Proof. exact handed. Qed.
Print Assumptions C06_same_handed.

(* centre of geometry of a backmapped residue = residue position (lookup model instantiated
   with the translated placement and an arbitrary per-residue matrix) *)
Theorem C06_residue_centred : forall (M : nat -> mat) (f : R) i cg t atoms out,
  NoDup (map fst t) -> Permutation (map snd atoms) (map fst t) ->
  vsum (map snd t) = vzero ->
  place_atoms (fun cg v => place_atom cg v f) (fun i v => mvmul (M i) v) i cg t atoms = Some out ->
  vsum (map snd out) = vscale (INR (List.length out)) cg /\ List.length out = List.length atoms.
Proof. exact residue_centred. Qed.
Print Assumptions C06_residue_centred.

(* own name, own residue *)
Theorem C06_own_name_own_residue : forall (M : nat -> mat) (f : R) i cg t atoms out,
  place_atoms (fun cg v => place_atom cg v f) (fun i v => mvmul (M i) v) i cg t atoms = Some out ->
  Forall2 (fun an w => fst w = fst an /\
             exists v, lookup t (snd an) = Some v /\ snd w = placeM (M i) f cg v) atoms out.
Proof. exact place_atoms_own_name. Qed.
Print Assumptions C06_own_name_own_residue.

(* frame: only residues flagged for backmapping are written *)
Theorem C06_only_flagged_written : forall (M : nat -> mat) (f : R) i rs ws,
  backmap_from (fun cg v => place_atom cg v f) (fun i v => mvmul (M i) v) i rs = Some ws ->
  forall a, In a (map fst ws) ->
    exists r, In r rs /\ r_backmap r = true /\ In a (map fst (r_atoms r)).
Proof. exact backmap_writes_only_flagged. Qed.
Print Assumptions C06_only_flagged_written.

(* non-vacuity: a concrete proper rotation (90 degrees about z) meets the hypotheses *)
Example C06_nonvacuous : exists M, orth M /\ mdet M = 1 /\
  mvmul M (1, 0, 0) = (0, 1, 0).
Proof. exact rot_nonvacuous. Qed.

(* non-vacuity of the translated text itself: theta_z = 90 degrees turns x into y *)
Example C06_nonvacuous_gen : rotate_xyz (cons (1,0,0) nil) 0 1 0 1 1 0 = cons (0,1,0) nil.
Proof. exact rot_nonvacuous_gen. Qed.
