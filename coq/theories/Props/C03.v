(* C03 -- gen_coords writes one finite coordinate per topology atom, in topology order; the box.
   Statements only; every proof is `exact <lemma>`; Print Assumptions under each. *)
From Coq Require Import ZArith String List Bool Arith Reals.
From PV Require Import TopPre Coords Gen_boxsel RNum Gen_box_R C03_coords C03_box.
Import ListNotations.

(* the rows are exactly the atoms of the [ molecules ] entries in order (each type repeated
   count times, atoms in type order), numbered 1.., each carrying the coordinate the placement
   produced for that atom -- for every placement outcome pos *)
Theorem C03_rows_exact : forall (P : Type) tys entries (pos : nat -> P) rows,
  Forall (fun e => lookup tys (fst e) <> None) entries ->
  gro_rows tys entries pos = Some rows ->
  let atoms := flat_map (fun e => concat (repeat (type_of tys (fst e)) (snd e))) entries in
  length rows = length atoms /\
  (forall i a, nth_error atoms i = Some a ->
     nth_error rows i = Some {| w_resid := a_resid a; w_resname := a_resname a; w_name := a_name a; w_idx := S i; w_pos := pos i |}).
Proof. exact rows_exact. Qed.
Print Assumptions C03_rows_exact.

Theorem C03_rows_count : forall (P : Type) tys entries (pos : nat -> P) rows,
  Forall (fun e => lookup tys (fst e) <> None) entries ->
  gro_rows tys entries pos = Some rows ->
  length rows = fold_right (fun e acc => snd e * length (type_of tys (fst e)) + acc)%nat 0%nat entries.
Proof. exact rows_count. Qed.
Print Assumptions C03_rows_count.

Theorem C03_rows_independent_of_placement : forall (P : Type) tys entries (pos pos' : nat -> P),
  option_map (map (ident P)) (gro_rows tys entries pos) = option_map (map (ident P)) (gro_rows tys entries pos').
Proof. exact rows_independent_of_positions. Qed.
Print Assumptions C03_rows_independent_of_placement.

(* the molecule loop: for every stream of attempt outcomes, when it ends every molecule is
   positioned and none was dropped; it ends whenever each molecule succeeds within K attempts *)
Theorem C03_all_molecules_positioned : forall fuel oracle attempt idx done out,
  compose fuel oracle attempt idx done = Some out ->
  (forall i, (i < idx)%nat -> nth i done false = true) ->
  length out = length done /\ (forall i, (i < length out)%nat -> nth i out false = true).
Proof. exact compose_all_positioned. Qed.
Print Assumptions C03_all_molecules_positioned.

Theorem C03_loop_terminates : forall oracle K, (forall idx, exists a, (a < K)%nat /\ oracle idx a = true) ->
  forall done, exists out, compose (S (length done * S K)) oracle 0 0 done = Some out.
Proof. exact compose_terminates. Qed.
Print Assumptions C03_loop_terminates.

(* box: structure > -box > density cube (over the chain translated from gen_coords and
   BuildSystem.__init__) *)
Theorem C03_box_precedence : forall (S D : Type) beq (cli tbox : option (S * S * S)) (dens : option D) (edge : S),
  init_box S (box_choice (S * S * S) D beq cli tbox dens) edge =
  match tbox, cli with
  | Some b, _ => b
  | None, Some b => b
  | None, None => (edge, edge, edge)
  end.
Proof. exact final_box_spec. Qed.
Print Assumptions C03_box_precedence.

Theorem C03_round_digits : init_box_round_digits = 5%Z.
Proof. exact eq_refl. Qed.
Print Assumptions C03_round_digits.

(* the mass summed for the density box: the [ atoms ] mass whenever one is given -- also a
   zero mass of a virtual site -- else the atom-type mass (T: presence test of the source) *)
Theorem C03_mass_lookup : forall (M : Type) (e t : option M),
  (forall m, e = Some m -> atom_mass e t = Some m) /\ (e = None -> atom_mass e t = t).
Proof. exact mass_lookup. Qed.
Print Assumptions C03_mass_lookup.

Theorem C03_mass_guards : explicit_mass_guard = ["'mass' in molecule.nodes[node]"]%string /\
                          type_mass_guard = ["not ('mass' in molecule.nodes[node])"]%string.
Proof. exact gen_mass_guards. Qed.
Print Assumptions C03_mass_guards.

(* density: the translated formula cubes to mass * 1.6605410 / density, and an edge rounded
   to within d of it has a volume within 3 (e0 + d)^2 d of that *)
Theorem C03_density_box_volume : forall m rho e d, (0 < m)%R -> (0 < rho)%R -> (0 <= d)%R -> (d <= box_edge m rho)%R ->
  (Rabs (e - box_edge m rho) <= d)%R ->
  (Rabs (e * e * e - m * (1660541 / 1000000) / rho) <= 3 * (box_edge m rho + d) * (box_edge m rho + d) * d)%R.
Proof. exact density_box_volume. Qed.
Print Assumptions C03_density_box_volume.

Theorem C03_box_edge_cube : forall m rho, (0 < m)%R -> (0 < rho)%R ->
  (box_edge m rho * box_edge m rho * box_edge m rho = m * (1660541 / 1000000) / rho)%R.
Proof. exact box_edge_volume. Qed.
Print Assumptions C03_box_edge_cube.

Example C03_nonvacuous : compose 20 (fun idx a => (idx + 1 <=? a)%nat) 0 0 [false; true; false] = Some [true; true; true].
Proof. exact ex_compose. Qed.
