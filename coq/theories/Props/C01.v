(* C01 -- every residue is a verbatim, re-indexed copy of its force-field block.
   Statements only; every proof is `exact <lemma>`; Print Assumptions under each. *)
From Coq Require Import ZArith String List Bool.
From PV Require Import Blocks C01_blocks.
Import ListNotations.
Open Scope Z_scope.

(* for every first residue id and every list of (non-empty, single-residue) blocks in residue
   order, the molecule built by add_blocks is the declarative layout: atoms and interactions *)
Theorem C01_add_blocks_layout : forall r0 blocks m,
  Forall (fun b => b_atoms b <> [] /\ Forall (fun a => a_resid a = 1) (b_atoms b)) blocks ->
  add_blocks r0 blocks = Some m ->
  m_atoms m = spec_atoms 0 r0 0 blocks /\ m_inters m = spec_inters 0 blocks.
Proof. exact add_blocks_layout. Qed.
Print Assumptions C01_add_blocks_layout.

(* the layout: names, types, residue names, charges and masses are those of the blocks, in
   order; atom indices are 0..N-1; residue k carries residue id r0 + k on all its atoms *)
Theorem C01_layout_is_verbatim : forall idx r cg blocks,
  map (fun ka => verbatim (snd ka)) (spec_atoms idx r cg blocks) = flat_map (fun b => map verbatim (b_atoms b)) blocks /\
  map (fun ka => a_resid (snd ka)) (spec_atoms idx r cg blocks) = spec_resids r blocks /\
  map fst (spec_atoms idx r cg blocks) = map (fun i => idx + Z.of_nat i) (seq 0 (List.length (flat_map b_atoms blocks))).
Proof. exact (fun idx r cg blocks => conj (spec_atoms_verbatim idx r cg blocks) (conj (spec_atoms_resids idx r cg blocks) (spec_atoms_keys idx r cg blocks))). Qed.
Print Assumptions C01_layout_is_verbatim.

(* every interaction defined inside a block reappears once per instance with unchanged
   section, parameters and guard *)
Theorem C01_interactions_once_per_instance : forall idx blocks,
  map (fun i => (i_sec i, i_params i, i_meta i)) (spec_inters idx blocks) =
  flat_map (fun b => map (fun i => (i_sec i, i_params i, i_meta i)) (b_inters b)) blocks.
Proof. exact spec_inters_params. Qed.
Print Assumptions C01_interactions_once_per_instance.

Open Scope string_scope.
Example C01_nonvacuous :
  let a n := {| a_name := n; a_type := "P1"; a_resid := 1; a_resname := "RA"; a_cg := 1; a_charge := "0"; a_mass := "72" |} in
  let b := {| b_atoms := [a "BB"; a "SC"]; b_inters := [{| i_sec := "bonds"; i_atoms := [0; 1]; i_params := ["1"; "0.3"]; i_meta := [] |}]; b_nrexcl := 1 |} in
  match add_blocks 17 [b; b] with
  | Some m => map fst (m_atoms m) = [0; 1; 2; 3] /\ map (fun ka => a_resid (snd ka)) (m_atoms m) = [17; 17; 18; 18] /\
              map i_atoms (m_inters m) = [[0; 1]; [2; 3]]
  | None => False
  end.
Proof. exact ex_blocks. Qed.
