(* C01 -- every residue is a verbatim, re-indexed copy of its force-field block.
   Statements only; every proof is `exact <lemma>`; Print Assumptions under each. *)
From Coq Require Import ZArith String List Bool.
From PV Require Import Blocks C01_blocks C01_multi Mods Gen_mods C01_mods.
Import ListNotations.
Open Scope Z_scope.

(* for every first residue id and every list of (non-empty, single-residue) blocks in residue
   order, the molecule built by add_blocks is the declarative layout: atoms and interactions *)
Theorem C01_add_blocks_layout : forall r0 blocks m,
  Forall (fun b => b_atoms b <> [] /\ Forall (fun a => a_resid a = 1) (b_atoms b)) blocks ->
  add_blocks r0 blocks = Some m ->
  m_atoms m = spec_atoms 0 r0 0 blocks /\ m_inters m = spec_inters 0 blocks.
Proof. exact add_blocks_layout. Qed.
Print Assumptions C01_add_blocks_layout.

(* the layout: names, types, residue names, charges and masses are those of the blocks, in
   order; atom indices are 0..N-1; residue k carries residue id r0 + k on all its atoms *)
Theorem C01_layout_is_verbatim : forall idx r cg blocks,
  map (fun ka => verbatim (snd ka)) (spec_atoms idx r cg blocks) = flat_map (fun b => map verbatim (b_atoms b)) blocks /\
  map (fun ka => a_resid (snd ka)) (spec_atoms idx r cg blocks) = spec_resids r blocks /\
  map fst (spec_atoms idx r cg blocks) = map (fun i => idx + Z.of_nat i) (seq 0 (List.length (flat_map b_atoms blocks))).
Proof. exact (fun idx r cg blocks => conj (spec_atoms_verbatim idx r cg blocks) (conj (spec_atoms_resids idx r cg blocks) (spec_atoms_keys idx r cg blocks))). Qed.
Print Assumptions C01_layout_is_verbatim.

(* every interaction defined inside a block reappears once per instance with unchanged
   section, parameters and guard *)
Theorem C01_interactions_once_per_instance : forall idx blocks,
  map (fun i => (i_sec i, i_params i, i_meta i)) (spec_inters idx blocks) =
  flat_map (fun b => map (fun i => (i_sec i, i_params i, i_meta i)) (b_inters b)) blocks.
Proof. exact spec_inters_params. Qed.
Print Assumptions C01_interactions_once_per_instance.

(* ---- residues that stem from multi-residue blocks (nodes labelled from_itp) ---- *)

(* for every first residue id and every sequence of block instances (single- or multi-residue,
   labelled or not) that is accepted, the molecule is the layout in which every instance is a
   copy of its block shifted by the atom count, residue id and charge group reached so far;
   the interactions are those of the single-residue layout (once per instance, re-indexed) *)
Theorem C01_multi_residue_layout : forall r0 blocks m,
  Forall (fun fb => b_atoms (snd fb) <> []) blocks ->
  add_blocks_m r0 blocks = Some m ->
  exists f b rest, blocks = (f, b) :: rest /\
    m_atoms m = spec_atoms_m 0 (r0 - min_resid b) 0 (map snd blocks) /\ m_inters m = spec_inters 0 (map snd blocks).
Proof. exact add_blocks_m_layout. Qed.
Print Assumptions C01_multi_residue_layout.

(* with blocks whose residue ids run 1..k in atom order: the residue ids of the molecule start
   at the first residue id, rise by 0 or 1 from atom to atom (every residue once, in order,
   its atoms contiguous) and end at first id - 1 + total number of residues *)
Theorem C01_multi_residue_numbering : forall blocks idx dres cg,
  Forall numbered blocks -> blocks <> [] ->
  let rs := map (fun ka => a_resid (snd ka)) (spec_atoms_m idx dres cg blocks) in
  hd 0 rs = dres + 1 /\ steps01 rs /\ last rs 0 = dres + fold_right (fun b acc => last_resid b + acc) 0 blocks.
Proof. exact layout_numbering. Qed.
Print Assumptions C01_multi_residue_numbering.

(* a block with several residue ids on a node that is not labelled from_itp is rejected *)
Theorem C01_unlabelled_multi_residue_block_rejected : forall r0 blocks f b,
  In (f, b) blocks -> f = false -> (1 < nresid b)%nat -> add_blocks_m r0 blocks = None.
Proof. exact add_blocks_m_rejects. Qed.
Print Assumptions C01_unlabelled_multi_residue_block_rejected.

Example C01_multi_nonvacuous :
  match add_blocks_m 5 [(true, ex_dim); (true, ex_dim); (false, ex_rc)] with
  | Some m => map (fun ka => a_resid (snd ka)) (m_atoms m) = [5; 5; 6; 7; 7; 8; 9] /\
              map i_atoms (m_inters m) = [[0; 1]; [1; 2]; [3; 4]; [4; 5]]
  | None => False
  end /\ add_blocks_m 5 [(false, ex_dim)] = None.
Proof. exact ex_multi. Qed.

(* ---- terminal modifications (apply_mod), with the applicability guard as the source states it
   now (Gen_mods.mod_applicable: the residue name is one of the listed protein residue names) ---- *)

(* a modification changes nothing but the atoms it names in its target residue: for every table
   of modifications, every molecule and every list of (residue id, modification) targets, the
   atoms keep their keys and order; an atom is unchanged unless some applicable target's residue
   contains it AND that modification lists its name; an attribute is unchanged unless such a
   modification lists it; interactions are only appended, on atoms of an applicable target *)
Theorem C01_modification_changes_only_named_atoms_of_target : forall table residues m ts m',
  apply_mod mod_applicable table residues m ts = Some m' ->
  map at_key (ml_atoms m') = map at_key (ml_atoms m) /\
  Forall2 (fun a a' =>
    ((forall md, ~ acts_on mod_applicable table residues ts (at_key a) md) -> a' = a) /\
    ((forall md, acts_on mod_applicable table residues ts (at_key a) md -> mod_lookup (md_atoms md) (at_name a) = None) -> a' = a) /\
    (forall k, (forall md, acts_on mod_applicable table residues ts (at_key a) md ->
                           forall n upd, In (n, upd) (md_atoms md) -> dget upd k = None) ->
               dget (at_attrs a') k = dget (at_attrs a) k)) (ml_atoms m) (ml_atoms m') /\
  exists extra, ml_inters m' = (ml_inters m ++ extra)%list /\
                forall i, In i extra -> exists md, forall x, In x (in_atoms i) -> acts_on mod_applicable table residues ts x md.
Proof. exact (apply_mod_frame mod_applicable). Qed.
Print Assumptions C01_modification_changes_only_named_atoms_of_target.

(* targets that are not applicable (residue name not in the list, e.g. one that merely starts
   like a protein residue name) leave the molecule exactly as it was *)
Theorem C01_modification_not_applicable_is_identity : forall table residues m ts m',
  apply_mod mod_applicable table residues m ts = Some m' ->
  (forall t r, In t ts -> find_residue residues (fst t) = Some r -> mod_applicable (rs_resname r) = false) ->
  m' = m.
Proof. exact (apply_mod_not_applicable mod_applicable). Qed.
Print Assumptions C01_modification_not_applicable_is_identity.

(* ... and the named atoms of an applicable target do receive the listed values *)
Theorem C01_modification_sets_listed_values : forall table residues m t m' md r,
  apply_mods mod_applicable table residues m [t] = Some m' ->
  find_modif table (snd t) = Some md -> find_residue residues (fst t) = Some r ->
  rs_from_itp r = true -> mod_applicable (rs_resname r) = true ->
  Forall2 (fun a a' => In (at_key a) (rs_atoms r) -> forall upd, mod_lookup (md_atoms md) (at_name a) = Some upd ->
                       forall k v, dlast upd k = Some v -> dget (at_attrs a') k = Some v) (ml_atoms m) (ml_atoms m').
Proof. exact (single_target_sets mod_applicable). Qed.
Print Assumptions C01_modification_sets_listed_values.

(* applicable means: exactly one of the listed names *)
Theorem C01_applicable_is_exact_membership : forall rn, mod_applicable rn = true <-> In rn mod_applicable_names.
Proof. exact applicable_exact. Qed.
Print Assumptions C01_applicable_is_exact_membership.

Open Scope string_scope.
Example C01_mods_nonvacuous :
  apply_mod (fun rn => existsb (String.eqb rn) ["GLY"; "LYS"]) ex_table ex_res ex_mol [(1%Z, "N-ter"); (2%Z, "N-ter")] =
  Some {| ml_atoms := [{| at_key := 0; at_attrs := [("atomname", "BB"); ("atype", "Qd"); ("charge", "1.0")] |};
                       ex_atom 1 "SC1" "C3"; ex_atom 2 "BB" "P3"; ex_atom 3 "SC1" "C1"]; ml_inters := [] |}.
Proof. exact ex_mods. Qed.

Example C01_nonvacuous :
  let a n := {| a_name := n; a_type := "P1"; a_resid := 1; a_resname := "RA"; a_cg := 1; a_charge := "0"; a_mass := "72" |} in
  let b := {| b_atoms := [a "BB"; a "SC"]; b_inters := [{| i_sec := "bonds"; i_atoms := [0; 1]; i_params := ["1"; "0.3"]; i_meta := [] |}]; b_nrexcl := 1 |} in
  match add_blocks 17 [b; b] with
  | Some m => map fst (m_atoms m) = [0; 1; 2; 3] /\ map (fun ka => a_resid (snd ka)) (m_atoms m) = [17; 17; 18; 18] /\
              map i_atoms (m_inters m) = [[0; 1]; [2; 3]]
  | None => False
  end.
Proof. exact ex_blocks. Qed.
