(* C14 -- mixed exclusion distances are honoured atom by atom.
   Statements only; every proof is `exact <lemma>`; Print Assumptions under each. *)
From Coq Require Import ZArith List Bool Arith.
From PV Require Import Graph Excl C14_excl.
Import ListNotations.
Open Scope Z_scope.

(* the neighbourhood search visits exactly the ball of the bond graph *)
Theorem C14_neighborhood_is_ball : forall g a k b, In b (ball g a k) <-> within g a b k.
Proof. exact ball_spec. Qed.
Print Assumptions C14_neighborhood_is_ball.

(* for every bond graph, every assignment of block exclusion distances ex to atoms and every
   molecule-wide distance m not above any of them: two different atoms are excluded (within m
   bonds, or a generated explicit pair) iff their bond distance is within the distance
   prescribed by the block of at least one of them *)
Theorem C14_exclusions_exact : forall g m tags ex a b,
  NoDup (map fst tags) -> (forall x e, In (x, e) tags -> (m <= e)%nat) ->
  In (a, ex a) tags -> In (b, ex b) tags -> (forall x e, In (x, e) tags -> e = ex x) -> a <> b ->
  (within g a b m \/ PIn (a, b) (expand_excl g m tags [])) <-> (within g a b (ex a) \/ within g a b (ex b)).
Proof. exact exclusions_exact. Qed.
Print Assumptions C14_exclusions_exact.

Theorem C14_no_duplicates : forall g m tags, NoDupPairs (expand_excl g m tags []).
Proof. exact (fun g m tags => no_duplicates g m tags [] NDP_nil). Qed.
Print Assumptions C14_no_duplicates.

(* with a uniform exclusion distance the molecule keeps it and no exclusions are invented *)
Theorem C14_uniform_keeps_nrexcl : forall g atoms v,
  atoms <> [] -> Forall (fun ae => snd ae = v) atoms -> generated g atoms = (v, []).
Proof. exact uniform_keeps_nrexcl. Qed.
Print Assumptions C14_uniform_keeps_nrexcl.

Example C14_nonvacuous :
  generated [(0, 1); (1, 2); (2, 3)] [(0, 1%nat); (1, 1%nat); (2, 3%nat); (3, 3%nat)] = (1%nat, [(2, 1); (2, 3); (2, 0); (3, 1); (3, 0)]).
Proof. exact ex_generated. Qed.
