(* C16 -- the neighbour engine always reflects exactly the currently positioned residues.
   Statements only; every proof is `exact <lemma>`; Print Assumptions under each. *)
From Coq Require Import Reals Arith List Bool ZArith.
From Coquelicot Require Import Coquelicot.
From PV Require Import RNum Engine Gen_engine_R Gen_engine_consts C16_engine C16_kernels.
Import ListNotations.

(* every state reachable from any initial position table by any history of add / remove /
   consolidate (add applied to a residue that currently has no position): the index lists of
   the search trees hold exactly the positioned rows, each exactly once -- for every tree
   threshold, in particular the one in the source *)
Theorem C16_inv_reachable : forall (V : Type) (thr : nat) (pos : list (option V)) ops s,
  run thr (init pos) ops = Some s -> Inv s.
Proof. exact (@inv_reachable). Qed.
Print Assumptions C16_inv_reachable.

(* position queries return the last position given, undefined after removal *)
Theorem C16_get_last_write : forall (V : Type) (thr : nat) (pos : list (option V)) ops s,
  run thr (init pos) ops = Some s -> e_pos s = fold_left abs_step ops pos.
Proof. exact (@get_last_write). Qed.
Print Assumptions C16_get_last_write.

(* force queries: exactly the residues currently positioned within the cut-off, each once,
   across all trees, minus the exclusions; "infinite" exactly on a hit below the floor *)
Theorem C16_force_scope_exact : forall (V : Type) (within tooclose : V -> V -> bool) (s : eng V) p excl,
  Inv s ->
  match force within tooclose s p excl with
  | FInf => exists g q, row (e_pos s) g = Some q /\ within p q = true /\ tooclose p q = true
  | FSum cs =>
      NoDup cs /\
      (forall g, In g cs <-> (exists q, row (e_pos s) g = Some q /\ within p q = true) /\ ~ In g excl) /\
      (forall g q, row (e_pos s) g = Some q -> within p q = true -> tooclose p q = false)
  end.
Proof. exact (@force_scope_exact). Qed.
Print Assumptions C16_force_scope_exact.

(* (T) the pair force as written in _lennard_jones_force is minus the gradient of the 12-6
   potential, directed along the unit vector from the neighbour to the point *)
Theorem C16_lj_force_minus_gradient : forall sig eps d p r : R, forall P Rf : vec, 0 < d ->
  lj_force d P Rf (sig, eps) = vscale (F sig eps d) (vdivs (vsub P Rf) d) /\
  is_derive (LJ sig eps) d (- F sig eps d).
Proof. exact (fun sig eps d _ _ P Rf H => lj_force_minus_gradient sig eps d P Rf H). Qed.
Print Assumptions C16_lj_force_minus_gradient.

(* (T) minimum-image distances: symmetric, periodic in each box vector, never above the direct distance *)
Theorem C16_min_image_symmetric : forall a b L, pbc_min_vec a b L = pbc_min_vec b a L.
Proof. exact min_image_symmetric. Qed.
Print Assumptions C16_min_image_symmetric.

Theorem C16_min_image_periodic : forall a b L k, v0 L <> 0 -> v1 L <> 0 -> v2 L <> 0 ->
  pbc_min_vec (shift a k L) b L = pbc_min_vec a b L.
Proof. exact min_image_periodic. Qed.
Print Assumptions C16_min_image_periodic.

Theorem C16_min_image_le_direct : forall a b L, 0 < v0 L -> 0 < v1 L -> 0 < v2 L ->
  pbc_min_norm (pbc_min_vec a b L) <= vnorm (vsub a b).
Proof. exact min_image_le_direct. Qed.
Print Assumptions C16_min_image_le_direct.

(* (T) the comparison that opens a new search tree is `n > tree_threshold` with the constant of the source *)
Theorem C16_threshold_positive : (0 < tree_threshold)%Z.
Proof. exact gen_threshold_positive. Qed.
Print Assumptions C16_threshold_positive.

Close Scope R_scope.
Open Scope nat_scope.
(* non-vacuity: a guarded history that crosses the threshold, empties a tree and re-adds *)
Example C16_nonvacuous :
  exists s, run 1 (init [Some 1; None; None; None])
              [Add true 1 5; Add true 2 6; Remove [1; 0]; Add false 0 7; Concat; Remove [2]] = Some s
            /\ e_pos s = [Some 7; None; None; None] /\ e_lists s = [[0]].
Proof. exact ex_history. Qed.
