(* C15 -- one centred template and size per distinct residue; user values win.
   Statements only; every proof is `exact <lemma>`; Print Assumptions under each. *)
From Coq Require Import Reals List Bool Arith ZArith String.
From PV Require Import RNum Templates Gen_vsites_R Gen_minimizer_R Gen_minimizer_consts C15_templates C15_kernels.
Import ListNotations.

(* residues whose graphs hash equally share key (hence template and size); different hashes
   get different keys.  [hash] stands for networkx' WL hash over atom-name labelled graphs. *)
Theorem C15_iso_share_template : forall (G H : Type) (hash : G -> H) (heqb : H -> H -> bool) g1 g2 residues seen i j,
  hash g1 = hash g2 -> nth_error residues i = Some g1 -> nth_error residues j = Some g2 ->
  nth_error (snd (group hash heqb seen residues)) i = nth_error (snd (group hash heqb seen residues)) j.
Proof. exact iso_share_template. Qed.
Print Assumptions C15_iso_share_template.

Theorem C15_different_hash_separate : forall (G H : Type) (hash : G -> H) (heqb : H -> H -> bool) g1 g2 residues seen i j,
  hash g1 <> hash g2 -> nth_error residues i = Some g1 -> nth_error residues j = Some g2 ->
  nth_error (snd (group hash heqb seen residues)) i <> nth_error (snd (group hash heqb seen residues)) j.
Proof. exact different_hash_separate. Qed.
Print Assumptions C15_different_hash_separate.

Theorem C15_every_residue_has_key : forall (G H : Type) (hash : G -> H) (heqb : H -> H -> bool),
  (forall a b, heqb a b = true <-> a = b) ->
  forall residues seen g, In g residues -> lookup heqb (hash g) (fst (group hash heqb seen residues)) <> None.
Proof. exact group_covers. Qed.
Print Assumptions C15_every_residue_has_key.

(* user templates / sizes are used unchanged, for every generator and volume oracle *)
Theorem C15_user_templates_win : forall (G H T V : Type) (heqb : H -> H -> bool) (generate : G -> T) (compute_volume : G -> T -> V)
  (resname : G -> nat) graphs user_t user_v vols h t,
  lookup heqb h user_t = Some t ->
  lookup heqb h (fst (gen_templates heqb generate compute_volume resname user_t user_v vols graphs)) = Some t.
Proof. exact user_templates_win. Qed.
Print Assumptions C15_user_templates_win.

Theorem C15_every_key_has_template : forall (G H T V : Type) (heqb : H -> H -> bool), (forall a b, heqb a b = true <-> a = b) ->
  forall (generate : G -> T) (compute_volume : G -> T -> V) (resname : G -> nat) graphs user_t user_v vols h g,
  In (h, Some g) graphs ->
  lookup heqb h (fst (gen_templates heqb generate compute_volume resname user_t user_v vols graphs)) <> None.
Proof. exact every_key_has_template. Qed.
Print Assumptions C15_every_key_has_template.

Theorem C15_user_volume_wins : forall (G H T V : Type) (hash : G -> H) (heqb : H -> H -> bool), (forall a b, heqb a b = true <-> a = b) ->
  forall (generate : G -> T) (compute_volume : G -> T -> V) (resname : G -> nat) g user_t user_v vols r,
  lookup heqb (hash g) user_t = None -> lookup heqb (hash g) vols = None ->
  lookup heqb (hash g) (snd (gen_templates heqb generate compute_volume resname user_t user_v vols ((hash g, Some g) :: r))) =
  Some (match find (fun p => Nat.eqb (fst p) (resname g)) user_v with
        | Some p => snd p
        | None => compute_volume g (generate g)
        end).
Proof. exact user_volume_wins. Qed.
Print Assumptions C15_user_volume_wins.

(* templates have zero centre of geometry and one position per atom *)
Theorem C15_template_centred : forall l, l <> [] -> vsum (centre l) = vzero.
Proof. exact template_centred. Qed.
Print Assumptions C15_template_centred.

(* virtual sites: the translated constructions are the GROMACS ones *)
Theorem C15_vs3fd : forall ri rj rk a b, vnorm (vadd (d ri rj) (vscale a (d rj rk))) <> 0%R ->
  vs3fd ri rj rk a b = gmx_3fd ri rj rk a b.
Proof. exact vs3fd_is_gromacs. Qed.
Print Assumptions C15_vs3fd.
Theorem C15_vs3fad : forall ri rj rk dd ct st,
  vnorm (d ri rj) <> 0%R -> vdot (d ri rj) (d ri rj) <> 0%R ->
  vnorm (vsub (d rj rk) (vscale (vdot (d ri rj) (d rj rk) / vdot (d ri rj) (d ri rj)) (d ri rj))) <> 0%R ->
  vs3fad ri rj rk dd ct st = gmx_3fad ri rj rk dd ct st.
Proof. exact vs3fad_is_gromacs. Qed.
Print Assumptions C15_vs3fad.
Theorem C15_vs3out : forall ri rj rk a b c, vs3out ri rj rk a b c = gmx_3out ri rj rk a b c.
Proof. exact vs3out_is_gromacs. Qed.
Print Assumptions C15_vs3out.
Theorem C15_vs4fdn : forall ri rj rk rl a b c,
  vnorm (vcross (vsub (vscale a (d ri rk)) (d ri rj)) (vsub (vscale b (d ri rl)) (d ri rj))) <> 0%R ->
  vs4fdn ri rj rk rl a b c = gmx_4fdn ri rj rk rl a b c.
Proof. exact vs4fdn_is_gromacs. Qed.
Print Assumptions C15_vs4fdn.
Theorem C15_vs2_vs3_weighted : (forall ri rj a, wavg [(1 - a)%R; a] [ri; rj] = gmx_2 ri rj a) /\
                               (forall ri rj rk a b, wavg [(1 - a - b)%R; a; b] [ri; rj; rk] = gmx_3 ri rj rk a b).
Proof. exact (conj wavg2_is_gromacs wavg3_is_gromacs). Qed.
Print Assumptions C15_vs2_vs3_weighted.
Theorem C15_vs_move_with_residue :
  (forall ri rj rk a b t, vs3fd (vadd ri t) (vadd rj t) (vadd rk t) a b = vadd (vs3fd ri rj rk a b) t) /\
  (forall ri rj rk a b c t, vs3out (vadd ri t) (vadd rj t) (vadd rk t) a b c = vadd (vs3out ri rj rk a b c) t) /\
  (forall ri rj rk rl a b c t, vs4fdn (vadd ri t) (vadd rj t) (vadd rk t) (vadd rl t) a b c = vadd (vs4fdn ri rj rk rl a b c) t) /\
  (forall ri rj rk dd ct st t, vs3fad (vadd ri t) (vadd rj t) (vadd rk t) dd ct st = vadd (vs3fad ri rj rk dd ct st) t).
Proof. exact (conj vs3fd_translation (conj vs3out_translation (conj vs4fdn_translation vs3fad_translation))). Qed.
Print Assumptions C15_vs_move_with_residue.

(* virtual_sitesn with function 2 (centre of mass) is built as centre of geometry: F9 *)
Theorem C15_vsn_com_refuted : exists (m1 m2 : R) (x1 x2 : vec), (0 < m1)%R /\ (0 < m2)%R /\ wavg [1%R; 1%R] [x1; x2] <> wavg [m1; m2] [x1; x2].
Proof. exact vsn_com_refuted. Qed.
Print Assumptions C15_vsn_com_refuted.

(* a template that is not failed meets every target within tolerance *)
Theorem C15_bond_within_tol : forall c0 c1 w ref tol, (0 < w)%R -> (0 <= tol)%R ->
  ~ (compute_bond c0 c1 w ref > w * (tol * tol))%R -> (Rabs (vnorm (vsub c0 c1) - ref) <= tol)%R.
Proof. exact bond_within_tol. Qed.
Print Assumptions C15_bond_within_tol.
Theorem C15_angle_within_tol : forall ang w ref tol, (0 < w)%R -> (0 <= tol)%R ->
  ~ (compute_angle ang w ref > w * (tol * tol))%R -> (Rabs (ang - ref) <= tol)%R.
Proof. exact angle_within_tol. Qed.
Print Assumptions C15_angle_within_tol.
Theorem C15_verdict_constants :
  WEIGHTS = [("bonds", (10000, 1)); ("angles", (1, 1)); ("constraints", (10000, 1)); ("dihedrals", (1, 1))]%string%Z /\
  TOLERANCE = [("angles", (5, 1)); ("dihedrals", (5, 1)); ("bonds", (1, 20)); ("constraints", (1, 20))]%string%Z /\
  verdict_fail_test = "penalty > WEIGHTS[inter_type] * tolerance[inter_type] ** 2.0"%string /\
  verdict_fail_test_final = "return (True, coords)"%string.
Proof. exact (conj gen_weights (conj gen_tolerance gen_verdict)). Qed.
Print Assumptions C15_verdict_constants.

(* sizes: the radius of gyration of two atoms at different places is positive *)
Theorem C15_size_positive : forall l a b, In a l -> In b l -> a <> b -> (0 < rg l)%R.
Proof. exact rg_positive. Qed.
Print Assumptions C15_size_positive.

Example C15_nonvacuous : vsum (centre [(1, 2, 3); (3, 2, 1); (2, 8, 5)]%R) = vzero.
Proof. exact ex_centre. Qed.
