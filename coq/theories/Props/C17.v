(* C17 -- failed placements are rolled back completely; accepted ones never move.
   Statements only; every proof is `exact <lemma>`; Print Assumptions under each.
   The outcome of every placement attempt is an oracle: all statements are for every stream. *)
From Coq Require Import Arith ZArith List Bool.
From PV Require Import Walk Gen_build C17_walk.
Import ListNotations.

(* _rewind, as python slices on placed_nodes, removes exactly the residues placed at the
   discarded steps (all but the failed one, which never got a position), drops the last
   nrewind records and resets the step counter to the earliest discarded step *)
Theorem C17_rewind_removes_exactly : forall nrewind pos placed x, 1 <= nrewind ->
  nrewind <= length placed ->
  let m := length placed + 1 - nrewind in
  rewind nrewind pos (placed ++ [x]) =
    (remove_nodes (map snd (skipn m placed)) pos, firstn m placed, fst (hd x (skipn m placed))).
Proof. exact (fun nr pos placed x H => rewind_char nr H pos placed x). Qed.
Print Assumptions C17_rewind_removes_exactly.

(* one run of the walk, for every outcome stream, rewind depth >= 1, retry limit, start
   outcome and duplicate-free listing of the supplied residues: no call ever grows from an
   unpositioned residue (Crashed unreachable); supplied residues keep their position; nothing
   but supplied residues, the root and buildable residues is ever positioned; a successful
   run has positioned the root and every residue exactly once *)
Theorem C17_walk_sound :
  forall path build nrewind maxiter root root_attr pre,
  1 <= nrewind -> NoDup (map snd path) ->
  (forall i p c, nth_error path i = Some (p, c) ->
     p = root \/ exists j q, j < i /\ nth_error path j = Some (q, p)) ->
  ~ In root (map snd path) ->
  (forall n, In n (map snd path) -> build n = false -> In n pre) ->
  (forall n, In n (map snd path) -> build n = true -> ~ In n pre) ->
  (root_attr = true <-> In root pre) ->
  forall fuel first_ok oracle pos, NoDup pos -> same_set pos pre ->
  match walk path build nrewind maxiter fuel root root_attr pos first_ok oracle with
  | Finished s =>
      NoDup (w_pos s) /\
      (w_success s = true -> molecule_positioned path root (w_pos s)) /\
      (forall n, In n pre -> In n (w_pos s)) /\
      (forall n, In n (w_pos s) -> In n pre \/ (n = root /\ root_attr = false) \/ (In n (map snd path) /\ build n = true))
  | Crashed _ => False
  | Running _ => False
  | OutOfFuel => True
  end.
Proof. exact walk_sound. Qed.
Print Assumptions C17_walk_sound.

(* molecule attempts (any number, any scripts): every abandoned attempt leaves exactly the
   supplied residues positioned before building continues; success = every residue once *)
Theorem C17_handle_sound :
  forall path build nrewind maxiter root root_attr pre,
  1 <= nrewind -> NoDup (map snd path) ->
  (forall i p c, nth_error path i = Some (p, c) ->
     p = root \/ exists j q, j < i /\ nth_error path j = Some (q, p)) ->
  ~ In root (map snd path) ->
  (forall n, In n (map snd path) -> build n = false -> In n pre) ->
  (forall n, In n (map snd path) -> build n = true -> ~ In n pre) ->
  (root_attr = true <-> In root pre) ->
  forall attempts_max cleanup,
  (forall n, In n cleanup <-> ((n = root /\ root_attr = false) \/ (In n (map snd path) /\ build n = true))) ->
  forall fuel attempts k pos, NoDup pos -> same_set pos pre ->
  match handle path build nrewind maxiter attempts_max fuel root root_attr cleanup pos k attempts with
  | HDone true p => molecule_positioned path root p
  | HDone false p => NoDup p /\ same_set p pre
  | HCrashed _ => False
  | HOut => True
  end.
Proof. exact handle_sound. Qed.
Print Assumptions C17_handle_sound.

(* (T) the clean-up set of _handle_random_walk as the source defines it now is the set of
   buildable residues (the hypothesis on `cleanup` above), not the whole molecule *)
Theorem C17_cleanup_is_built_only : cleanup_all = false.
Proof. exact gen_cleanup_built_only. Qed.
Print Assumptions C17_cleanup_is_built_only.

(* non-vacuity: a 4-residue chain, residue 3 supplied, two failures forcing a rewind *)
Example C17_nonvacuous :
  match walk [(0, 1); (1, 2); (2, 3)]%Z (fun n => negb (Z.eqb n 3)) 1 50 100 0%Z false [3%Z] true
             [true; false; true] with
  | Finished s => w_success s = true /\ w_pos s = [2; 1; 0; 3]%Z /\ w_placed s = [(0, 1%Z); (1, 2%Z)]
  | _ => False
  end.
Proof. exact ex_walk. Qed.
