(* C13 -- generated topology is independent of labelling, ordering and run history.
   Statements only; every proof is `exact <lemma>`; Print Assumptions under each. *)
From Coq Require Import ZArith String List Bool Permutation.
From PV Require Import Blocks Links C02_links C13_invariance C13_relabel Gen_parser C13_skel.
Import ListNotations.
Open Scope Z_scope.

(* residues are processed sorted by residue id: any two listings of the same residues (other node
   keys, other insertion order) give the same molecule *)
Theorem C13_relabel_invariant : forall r0 (l1 l2 : list (Z * block)),
  NoDup (map fst l1) -> Permutation l1 l2 ->
  add_blocks r0 (map snd (isort l1)) = add_blocks r0 (map snd (isort l2)).
Proof. exact add_blocks_relabel_invariant. Qed.
Print Assumptions C13_relabel_invariant.

(* writes that do not define the same interaction may be made in any order *)
Theorem C13_definition_order_invariant : forall ws ws' k,
  NoDup (map fst ws) -> Permutation ws ws' -> last_write ws' k = last_write ws k.
Proof. exact definition_order_invariant. Qed.
Print Assumptions C13_definition_order_invariant.

(* link application does not depend on how the residue graph is labelled and stored: for every
   bijective renaming of the node keys, any storage order of nodes and edges and any edge
   orientation (residue ids and residue contents fixed), the interaction table, the attribute
   replacements and the added edges are the same -- matches are found by an order-independent
   search and applied sorted by (residue id, order label), a strict total order on matches *)
Theorem C13_links_relabel_invariant : forall f finv g g', relabelled f finv g g' ->
  forall blocks links, Forall (fun l => NoDup (map order_str (l_res_nodes l))) links ->
  apply_links g' blocks links = apply_links g blocks links /\
  flat_map (link_replaces g') links = flat_map (link_replaces g) links /\
  flat_map (link_edges g') links = flat_map (link_edges g) links.
Proof. exact apply_links_relabel. Qed.
Print Assumptions C13_links_relabel_invariant.

Example C13_relabel_nonvacuous : relabelled ex_f ex_finv ex_g ex_g'.
Proof. exact ex_relabelled. Qed.

Example C13_nonvacuous : isort [(3, "c"); (1, "a"); (2, "b")]%string = [(1, "a"); (2, "b"); (3, "c")]%string.
Proof. exact ex_sort. Qed.

(* (T) the .itp reader snapshots the blocks and links defined before its file; what it does at the end of the file (splitting
   dangling interactions off, making edges) concerns the definitions of that file, so reading a.ff then b.itp and b.itp then
   a.ff leave the definitions of a.ff the same (differential check: both orders through gen_params) *)
Theorem C13_itp_reader_scope :
  (parser_known_blocks = "dict(force_field.blocks)" /\ parser_known_links = "len(force_field.links)")%string.
Proof. exact gen_parser_scope. Qed.
Print Assumptions C13_itp_reader_scope.
