(* C13 -- generated topology is independent of labelling, ordering and run history.
   Statements only; every proof is `exact <lemma>`; Print Assumptions under each. *)
From Coq Require Import ZArith String List Bool Permutation.
From PV Require Import Blocks Links C02_links C13_invariance.
Import ListNotations.
Open Scope Z_scope.

(* residues are processed sorted by residue id: any two listings of the same residues (other node
   keys, other insertion order) give the same molecule *)
Theorem C13_relabel_invariant : forall r0 (l1 l2 : list (Z * block)),
  NoDup (map fst l1) -> Permutation l1 l2 ->
  add_blocks r0 (map snd (isort l1)) = add_blocks r0 (map snd (isort l2)).
Proof. exact add_blocks_relabel_invariant. Qed.
Print Assumptions C13_relabel_invariant.

(* writes that do not define the same interaction may be made in any order *)
Theorem C13_definition_order_invariant : forall ws ws' k,
  NoDup (map fst ws) -> Permutation ws ws' -> last_write ws' k = last_write ws k.
Proof. exact definition_order_invariant. Qed.
Print Assumptions C13_definition_order_invariant.

Example C13_nonvacuous : isort [(3, "c"); (1, "a"); (2, "b")]%string = [(1, "a"); (2, "b"); (3, "c")]%string.
Proof. exact ex_sort. Qed.
