(* C02 -- links are applied exactly where their definition matches.
   Statements only; every proof is `exact <lemma>`; Print Assumptions under each. *)
From Coq Require Import ZArith String List Bool.
From PV Require Import Links C02_links.
Import ListNotations.
Open Scope Z_scope.

(* an interaction is in the result iff a block or a matching link wrote its key
   (section, atoms, version), and it carries the parameters of the LAST writer: block
   interactions first, then the links in force-field order *)
Theorem C02_last_writer_wins : forall g blocks links k,
  alookup (apply_links g blocks links) k = last_write (all_writes g blocks links) k.
Proof. exact apply_links_last_wins. Qed.
Print Assumptions C02_last_writer_wins.

Theorem C02_nothing_invented : forall g blocks links k,
  (forall v, ~ In (k, v) (all_writes g blocks links)) -> alookup (apply_links g blocks links) k = None.
Proof. exact nothing_invented. Qed.
Print Assumptions C02_nothing_invented.

(* block interactions survive unless a link writes the same atoms and version *)
Theorem C02_block_interaction_frame : forall g blocks links k,
  (forall v, ~ In (k, v) (flat_map (link_writes g) links)) ->
  alookup (apply_links g blocks links) k = last_write blocks k.
Proof. exact block_interaction_frame. Qed.
Print Assumptions C02_block_interaction_frame.

(* the residue-level matches are exactly the injective assignments of the link's residues to
   residues of the molecule that are induced-subgraph isomorphisms and respect relative order *)
Theorem C02_residue_matches_exact : forall g l mu,
  In mu (residue_matches g l) <->
  (map fst mu = l_res_nodes l /\ NoDup (map snd mu) /\ (forall n, In n (map snd mu) -> In n (map mn_key (m_nodes g)))) /\
  induced_ok g l mu = true /\ order_ok g mu = true.
Proof. exact residue_matches_exact. Qed.
Print Assumptions C02_residue_matches_exact.

(* edge labels: a match maps every edge of the link's residue pattern onto a residue-graph edge carrying
   the same label (none = none); an unlabelled link never matches a labelled edge and vice versa *)
Theorem C02_edge_labels : forall g l mu,
  (induced_ok g l mu = true <->
   forall o1 n1 o2 n2, In (o1, n1) mu -> In (o2, n2) mu -> order_eqb o1 o2 = false ->
     has_ledge l o1 o2 = has_medge g n1 n2 /\ (has_ledge l o1 o2 = true -> llabel l o1 o2 = mlabel g n1 n2)) /\
  (forall o1 n1 o2 n2, In mu (residue_matches g l) -> In (o1, n1) mu -> In (o2, n2) mu -> order_eqb o1 o2 = false ->
     has_ledge l o1 o2 = true -> has_medge g n1 n2 = true /\ mlabel g n1 n2 = llabel l o1 o2).
Proof. exact (fun g l mu => conj (induced_ok_spec g l mu) (fun o1 n1 o2 n2 => match_respects_edge_labels g l mu o1 n1 o2 n2)). Qed.
Print Assumptions C02_edge_labels.

(* which atoms a link atom may identify: name, residue name (choice) and every further attribute it states *)
Theorem C02_atom_selection : forall la a,
  atom_ok la a = true <->
  ra_name a = la_name la /\ In (ra_resname a) (la_resnames la) /\ (forall kv, In kv (la_attrs la) -> In kv (ra_attrs a)).
Proof. exact atom_ok_spec. Qed.
Print Assumptions C02_atom_selection.

(* every link atom identifies exactly one atom of its residue *)
Theorem C02_link_atoms_unique : forall g mu las m,
  match_atoms g mu las = Some m ->
  Forall2 (fun la p => fst p = la_key la /\
             exists nk n a, mu_get mu (la_order la) = Some nk /\ find_mnode (m_nodes g) nk = Some n /\
                            filter (atom_ok la) (mn_atoms n) = [a] /\ snd p = ra_key a) las m.
Proof. exact match_atoms_unique. Qed.
Print Assumptions C02_link_atoms_unique.

(* relative residue order: the comparison table read declaratively, and its symmetry *)
Theorem C02_relative_order :
  (forall a b r1 r2, match_order (ONum a) r1 (ONum b) r2 = true <-> r2 - r1 = b - a) /\
  (forall n r1 r2, 0 < n -> (match_order (ONum 0) r1 (OArrow n) r2 = true <-> r1 < r2)) /\
  (forall n r1 r2, n < 0 -> (match_order (ONum 0) r1 (OArrow n) r2 = true <-> r2 < r1)) /\
  (forall n r1 r2, match_order (ONum 0) r1 (OStar n) r2 = true <-> r1 <> r2) /\
  (forall a b r1 r2, a < b -> (match_order (OArrow a) r1 (OArrow b) r2 = true <-> r1 < r2)) /\
  (forall o1 r1 o2 r2, match_order o1 r1 o2 r2 = match_order o2 r2 o1 r1).
Proof. exact (conj order_numbers (conj order_after (conj order_before (conj order_other (conj order_arrows match_order_sym))))). Qed.
Print Assumptions C02_relative_order.

Open Scope string_scope.
Example C02_nonvacuous :
  let at1 k := {| ra_key := k; ra_name := "EC"; ra_resname := "PEO"; ra_attrs := [] |} in
  let g := {| m_nodes := [{| mn_key := 0; mn_resid := 1; mn_atoms := [at1 0] |}; {| mn_key := 1; mn_resid := 2; mn_atoms := [at1 1] |};
                          {| mn_key := 2; mn_resid := 3; mn_atoms := [at1 2] |}];
              m_edges := [(0, 1); (1, 2)]; m_labels := [] |} in
  let la k o := {| la_key := k; la_name := "EC"; la_order := o; la_resnames := ["PEO"]; la_replace := []; la_attrs := [] |} in
  let l := {| l_atoms := [la "EC" (ONum 0); la "+EC" (ONum 1)];
              l_inters := [{| li_sec := "bonds"; li_atoms := ["EC"; "+EC"]; li_params := ["1"; "0.33"; "7000"]; li_version := 1; li_meta := [] |}];
              l_edges := [("EC", "+EC")]; l_res_nodes := [ONum 0; ONum 1]; l_res_edges := [(ONum 0, ONum 1)]; l_res_labels := [] |} in
  map (fun kv => snd (fst (fst kv))) (apply_links g [] [l]) = [[1; 2]; [0; 1]] \/
  map (fun kv => snd (fst (fst kv))) (apply_links g [] [l]) = [[0; 1]; [1; 2]].
Proof. exact ex_links. Qed.
