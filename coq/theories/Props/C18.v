(* C18 -- build options select exactly the molecules and residues they name.
   Statements only; every proof is `exact <lemma>`; Print Assumptions under each. *)
From Coq Require Import ZArith String Ascii List Bool.
From PV Require Import Select C18_select.
Import ListNotations.
Open Scope Z_scope.

Theorem C18_block_applies : forall b name idx, applies b name idx = true <-> b_name b = name /\ b_lo b <= idx < b_hi b.
Proof. exact applies_spec. Qed.
Print Assumptions C18_block_applies.

Theorem C18_directive_hits : forall o r, hits o r = true <-> n_resname r = o_resname o /\ o_start o <= n_resid r < o_stop o.
Proof. exact hits_spec. Qed.
Print Assumptions C18_directive_hits.

(* a residue carries exactly the directives that name its molecule and itself, in file order,
   and is otherwise unchanged *)
Theorem C18_tag_exact : forall blocks name idx nodes k r,
  nth_error nodes k = Some r ->
  exists r', nth_error (tag_molecule blocks name idx nodes) k = Some r' /\
    n_resid r' = n_resid r /\ n_resname r' = n_resname r /\
    n_restraints r' = (n_restraints r ++ map o_id (filter (fun o => is_kw Restraint o && hits o r) (directives_for blocks name idx)))%list /\
    n_rw r' = (n_rw r ++ map o_id (filter (fun o => is_kw RwOption o && hits o r) (directives_for blocks name idx)))%list.
Proof. exact tag_exact. Qed.
Print Assumptions C18_tag_exact.

Theorem C18_directives_for : forall blocks name idx o,
  In o (directives_for blocks name idx) <-> exists b, In b blocks /\ b_name b = name /\ b_lo b <= idx < b_hi b /\ In o (b_opts b).
Proof. exact directives_for_spec. Qed.
Print Assumptions C18_directives_for.

Theorem C18_untouched_molecule : forall blocks name idx nodes,
  (forall b, In b blocks -> applies b name idx = false) -> tag_molecule blocks name idx nodes = nodes.
Proof. exact untouched_molecule. Qed.
Print Assumptions C18_untouched_molecule.

Theorem C18_apply_build : forall blocks mols i name nodes,
  nth_error mols i = Some (name, nodes) ->
  nth_error (apply_build blocks mols) i = Some (name, tag_molecule blocks name (Z.of_nat i) nodes) /\
  List.length (apply_build blocks mols) = List.length mols.
Proof. exact apply_build_spec. Qed.
Print Assumptions C18_apply_build.

(* residue specifications are read as written *)
Theorem C18_spec_roundtrip : forall molname molidx res,
  plainname molname -> (forall i, molidx = Some i -> plainname i) ->
  (forall rn rid, res = Some (rn, rid) -> plainname rn /\ rn <> EmptyString /\ forall i, rid = Some i -> plainname i) ->
  parse_spec (render_spec molname molidx res) =
  {| s_molname := nonempty molname; s_molidx := molidx;
     s_resname := match res with Some (rn, _) => Some rn | None => None end;
     s_resid := match res with Some (_, rid) => rid | None => None end |}.
Proof. exact parse_render. Qed.
Print Assumptions C18_spec_roundtrip.

Theorem C18_find_nodes : forall resname resid nodes k,
  In k (find_nodes resname resid nodes) <->
  exists r, In (k, r) nodes /\ (forall n, resname = Some n -> n_resname r = n) /\ (forall i, resid = Some i -> n_resid r = i).
Proof. exact find_nodes_spec. Qed.
Print Assumptions C18_find_nodes.

Theorem C18_start_is_first_match : forall resname resid nodes k,
  start_node resname resid nodes = Some k -> In k (find_nodes resname resid nodes) /\
  exists pre post r, nodes = (pre ++ (k, r) :: post)%list /\ Forall (fun p => node_matches resname resid (snd p) = false) pre.
Proof. exact start_is_first_match. Qed.
Print Assumptions C18_start_is_first_match.

(* splitting: no atom lost or duplicated; named atoms move to the named residue, others stay *)
Theorem C18_split_keeps_atoms : forall max_resid resname news atoms,
  map a_id (split_atoms max_resid resname news atoms) = map a_id atoms /\
  map a_name (split_atoms max_resid resname news atoms) = map a_name atoms.
Proof. exact split_keeps_atoms. Qed.
Print Assumptions C18_split_keeps_atoms.

Theorem C18_split_relabel : forall max_resid resname news a,
  (a_resname a <> resname -> relabel max_resid resname news a = a) /\
  (a_resname a = resname -> (forall nw, In nw news -> ~ In (a_name a) (snd nw)) -> relabel max_resid resname news a = a) /\
  (forall n, new_name resname news a = Some n ->
     a_resname (relabel max_resid resname news a) = n /\ a_resid (relabel max_resid resname news a) = a_resid a + max_resid /\
     exists names, In (n, names) news /\ In (a_name a) names).
Proof. exact split_relabel_spec. Qed.
Print Assumptions C18_split_relabel.

(* ligands: the temporary nodes are fresh keys and are all removed again *)
Theorem C18_ligand_roundtrip : forall nodes next ligs,
  Forall (fun n => m_ligated n = None) nodes -> detach (with_ligands nodes next ligs) = nodes.
Proof. exact ligand_roundtrip. Qed.
Print Assumptions C18_ligand_roundtrip.

Theorem C18_ligand_keys : forall next ligs k, In k (map m_key (attach next ligs)) <-> (next <= k < next + List.length ligs)%nat.
Proof. exact attach_keys. Qed.
Print Assumptions C18_ligand_keys.

Example C18_nonvacuous :
  apply_build [{| b_name := "A"; b_lo := 1; b_hi := 3; b_opts := [{| o_kw := Restraint; o_resname := "R"; o_start := 2; o_stop := 4; o_id := 7%nat |}] |}]
              [("A", [{| n_resid := 2; n_resname := "R"; n_restraints := []; n_rw := [] |}]);
               ("A", [{| n_resid := 2; n_resname := "R"; n_restraints := []; n_rw := [] |}; {| n_resid := 4; n_resname := "R"; n_restraints := []; n_rw := [] |}]);
               ("B", [{| n_resid := 2; n_resname := "R"; n_restraints := []; n_rw := [] |}])]%string
  = [("A", [{| n_resid := 2; n_resname := "R"; n_restraints := []; n_rw := [] |}]);
     ("A", [{| n_resid := 2; n_resname := "R"; n_restraints := [7%nat]; n_rw := [] |}; {| n_resid := 4; n_resname := "R"; n_restraints := []; n_rw := [] |}]);
     ("B", [{| n_resid := 2; n_resname := "R"; n_restraints := []; n_rw := [] |}])]%string.
Proof. exact ex_select. Qed.
