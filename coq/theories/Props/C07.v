(* C07 -- build-file restraints hold for every residue they select.
   Statements only; every proof is `exact <lemma>`; Print Assumptions under each. *)
From Coq Require Import Reals List Bool String ZArith.
From PV Require Import RNum Mode Tproj Restraints Gen_walk_R Gen_restraints_R Gen_walk_skel
                       C07_kernels C07_restraints C05_skel Dfs C07_dfs.
Import ListNotations.
Open Scope R_scope.

(* (T) geometric restraints: a point the predicate accepts satisfies the declared restraint *)
Theorem C07_sphere_sound : forall p c r,
  (in_sphere p (MIn, c, r) = true -> vnorm (vsub c p) <= r) /\
  (in_sphere p (MOut, c, r) = true -> r <= vnorm (vsub c p)).
Proof. exact (fun p c r => conj (sphere_in_sound p c r) (sphere_out_sound p c r)). Qed.
Print Assumptions C07_sphere_sound.

Theorem C07_cylinder_sound : forall p c r h,
  (in_cylinder p (MIn, c, r, h) = true -> radial c p < r /\ Rabs (dz c p) < h) /\
  (in_cylinder p (MOut, c, r, h) = true -> ~ (radial c p <= r /\ Rabs (dz c p) <= Rabs h)).
Proof. exact (fun p c r h => conj (cylinder_in_sound p c r h) (cylinder_out_sound p c r h)). Qed.
Print Assumptions C07_cylinder_sound.

Theorem C07_rectangle_sound : forall p c a b d,
  (in_rectangle p (MIn, c, a, b, d) = true ->
     Rabs (v0 (vsub c p)) < a /\ Rabs (v1 (vsub c p)) < b /\ Rabs (v2 (vsub c p)) < d) /\
  (in_rectangle p (MOut, c, a, b, d) = true ->
     ~ (Rabs (v0 (vsub c p)) < a /\ Rabs (v1 (vsub c p)) < b /\ Rabs (v2 (vsub c p)) < d)).
Proof. exact (fun p c a b d => conj (rectangle_in_sound p c a b d) (rectangle_out_sound p c a b d)). Qed.
Print Assumptions C07_rectangle_sound.

(* (T) growth direction: same side of the plane as the reference angle, angle within |ref| *)
Theorem C07_direction_sound : forall p old n ref ang,
  is_restricted_tail p old n ref ang = true ->
  nsign (vdot n (vsub p old)) = nsign ref /\ ang <= Rabs ref.
Proof. exact direction_sound. Qed.
Print Assumptions C07_direction_sound.

(* the direction test is handed the end of the step before wrapping, old + v * s: what it tests is the step vector itself *)
Theorem C07_direction_of_the_step : forall old v s n ref ang,
  is_restricted_tail (vadd old (vscale_r v s)) old n ref ang = true ->
  nsign (s * vdot n v) = nsign ref /\ ang <= Rabs ref.
Proof. exact direction_of_the_step. Qed.
Print Assumptions C07_direction_of_the_step.

(* (T) every position added by the walk passed the geometric, milestone and direction tests; the direction test is made
   on the step itself, last_point + vector * step_length, not on the new point after it was wrapped into the box *)
Theorem C07_restraints_guard_placement :
  (In "fulfill_geometrical_constraints(new_point, self.molecule.nodes[current_node])" accept_conjuncts /\
   In "self.checks_milestones(current_node, new_point, step_length)" accept_conjuncts /\
   In "is_restricted(step_end, last_point, self.molecule.nodes[current_node])" accept_conjuncts /\
   step_end_def = "last_point + vector_bundle[index] * step_length" /\
   In "constrained" first_accept_conjuncts /\
   constrained_def = "fulfill_geometrical_constraints(self.start, self.molecule.nodes[first_node])")%string.
Proof.
  exact (conj (proj1 (proj2 gen_accept_guards)) (conj (proj1 (proj2 (proj2 gen_accept_guards)))
        (conj (proj1 (proj2 (proj2 (proj2 gen_accept_guards)))) (conj gen_step_end (conj (proj1 (proj2 gen_first_guards)) (proj1 (proj2 (proj2 gen_first_guards)))))))).
Qed.
Print Assumptions C07_restraints_guard_placement.

(* distance restraints: the restrained residue carries the window [d - tol, d + tol + avg],
   for every tree path, distance, tolerance and average pair size ... *)
Theorem C07_target_entry_window : forall ref mids tgt avg d tol,
  let path := (ref :: mids ++ [tgt])%list in
  In (tgt, (ref, d + tol + avg, d - tol)) (entriesR path 0 (List.length path - 1) ref avg d tol).
Proof. exact target_entry_window. Qed.
Print Assumptions C07_target_entry_window.

(* ... and a position accepted against that entry ends inside it *)
Theorem C07_accepted_target_in_window : forall dist avg d tol g, g <> 0 ->
  C07_kernels.milestone_ok dist (upper_bound 1 avg d tol) (lower_bound (avg_needed_step_length d g) tol g) = true ->
  d - tol <= dist <= d + tol + avg.
Proof. exact accepted_target_in_window. Qed.
Print Assumptions C07_accepted_target_in_window.

(* (T) a molecule declared cyclic is traversed depth first *)
Theorem C07_cyclic_uses_depth_first : search_tree_dfs_true = "nx.dfs_tree"%string.
Proof. exact (proj1 gen_search_tree_dfs). Qed.
Print Assumptions C07_cyclic_uses_depth_first.

(* a ring-shaped molecule declared cyclic: for a ring of ANY size n >= 3, any node keys (node k, k < n, are the residues
   in ring order from the root), any order of the two neighbours in every adjacency list, the depth-first search tree
   from the root is a path through all n residues that starts with the root's first-listed neighbour a and ends at its
   second-listed neighbour b, and the ring joins the root and b by the one edge the tree leaves out (the closing edge) *)
Theorem C07_ring_search_tree : forall (n : nat) (adj : Z -> list Z) (node : nat -> Z),
  (3 <= n)%nat -> is_ring n adj node ->
  exists a b, adj (node 0%nat) = [a; b] /\ a <> b /\
    cycle_pair adj n (node 0%nat) = Some (node 0%nat, b) /\
    List.length (tree_edges adj n (node 0%nat)) = (n - 1)%nat /\
    hd_error (tree_edges adj n (node 0%nat)) = Some (node 0%nat, a) /\
    ~ In (node 0%nat, b) (tree_edges adj n (node 0%nat)) /\
    ~ In (b, node 0%nat) (tree_edges adj n (node 0%nat)) /\
    (forall j, (j < n)%nat -> j <> 0%nat -> In (node j) (map snd (tree_edges adj n (node 0%nat)))).
Proof. exact (fun n adj node Hn R => ring_cycle_pair n adj Hn node R). Qed.
Print Assumptions C07_ring_search_tree.

(* the pair _initialize_cylces restrains on such a ring, for ANY listing of the ring's edges (any order, either direction
   each, as long as the closing edge is among them): (root, b), the two residues joined by the closing edge *)
Theorem C07_ring_closing_pair : forall (n : nat) (adj : Z -> list Z) (node : nat -> Z) (edges : list (Z * Z)),
  (3 <= n)%nat -> is_ring n adj node ->
  (forall e, In e edges -> (exists k, (k < n)%nat /\ fst e = node k) /\ In (snd e) (adj (fst e))) ->
  exists a b, adj (node 0%nat) = [a; b] /\ a <> b /\
    ((In (node 0%nat, b) edges \/ In (b, node 0%nat) edges) ->
     closing_pair adj edges n (node 0%nat) = Some (node 0%nat, b)) /\
    ~ In (node 0%nat, b) (tree_edges adj n (node 0%nat)) /\ ~ In (b, node 0%nat) (tree_edges adj n (node 0%nat)).
Proof. exact (fun n adj node edges Hn R H => ring_closing_pair n adj Hn node edges R H). Qed.
Print Assumptions C07_ring_closing_pair.

(* for ANY molecule (a ring that carries ligands or tails as well): when the search tree leaves an edge of the molecule
   out, the restrained pair is such an edge, its ends in the order the tree reached them; only when the tree holds every
   edge (no ring) it is the pair of tree ends *)
Theorem C07_restrained_pair_is_an_edge_left_out : forall (n : nat) (adj : Z -> list Z) edges root p,
  closing_pair adj edges n root = Some p ->
  (exists e, In e edges /\ in_tree (tree_edges adj n root) e = false /\ p = orient (tree_nodes adj n root) e) \/
  ((forall e, In e edges -> in_tree (tree_edges adj n root) e = true) /\ cycle_pair adj n root = Some p).
Proof. exact (fun n adj edges root p => closing_pair_spec n adj edges root p). Qed.
Print Assumptions C07_restrained_pair_is_an_edge_left_out.

(* (T) the pair that is restrained, as the source defines it, d = 0 *)
Theorem C07_cycle_pair_definition :
  (cycle_tree_def = "molecule.search_tree" /\
   cycle_order_def = "list(tree.nodes)" /\
   cycle_closing_def = "[tuple(sorted(edge, key=order.index)) for edge in molecule.edges if not tree.has_edge(*edge) and (not tree.has_edge(*edge[::-1]))]" /\
   cycle_ends_def = "(list(tree.edges)[0][0], list(tree.edges)[-1][1])" /\
   cycle_nodes_def = "closing[0] if closing else ends" /\
   cycle_restraint_def = "(0.0, tolerance)")%string.
Proof. exact gen_cycle_pair. Qed.
Print Assumptions C07_cycle_pair_definition.

Example C07_ring_nonvacuous : is_ring 5 ex_ring_adj ex_ring_node /\ cycle_pair ex_ring_adj 5 7 = Some (7, 11)%Z.
Proof. exact (conj ex_ring_is_ring (proj1 ex_ring_pair)). Qed.

(* a ligand on the residue the search reaches last: the tree ends at the ligand, the restrained pair is the ring's closing edge *)
Example C07_ring_with_ligand_nonvacuous :
  cycle_pair ex_lig_adj 6 7 = Some (7, 99)%Z /\
  closing_pair ex_lig_adj [(7, 3); (7, 11); (3, 20); (20, 5); (5, 11); (11, 99)]%Z 6 7 = Some (7, 11)%Z.
Proof. exact ex_ring_with_ligand. Qed.

(* sampled end-to-end distances lie between one step and the contour length *)
Theorem C07_ee_samples_in_range :
  ee_arange = "np.arange(avg_step_length, max_path_length, avg_step_length)"%string /\
  forall a m (k : nat), 0 < a -> a + INR k * a < m -> a <= a + INR k * a < m.
Proof. exact (conj gen_ee_arange ee_samples_in_range). Qed.
Print Assumptions C07_ee_samples_in_range.

Example C07_nonvacuous : in_sphere (1, 1, 1) (MIn, (1, 1, 2), 3 / 2) = true /\ in_sphere (1, 1, 1) (MOut, (1, 1, 2), 3 / 2) = false.
Proof. exact ex_sphere. Qed.
