(* C05 -- generated residues are one step apart, inside the box, never overlapping.
   Statements only; every proof is `exact <lemma>`; Print Assumptions under each. *)
From Coq Require Import Reals Arith List Bool String.
From PV Require Import RNum Tproj Engine Gen_linalg_R Gen_walk_R Gen_engine_R Gen_walk_skel
                       C16_engine C16_kernels C05_kernels C05_clear C05_skel.
Import ListNotations.
Open Scope R_scope.

(* (T) every generated position lies inside the periodic box *)
Theorem C05_step_in_box : forall s c L v, 0 < v0 L -> 0 < v1 L -> 0 < v2 L ->
  let p := take_step s c L v in
  0 <= v0 p < v0 L /\ 0 <= v1 p < v1 L /\ 0 <= v2 p < v2 L.
Proof. exact step_in_box. Qed.
Print Assumptions C05_step_in_box.

(* (T) ... at exactly the step length from the residue it was grown from, under the minimum
   image convention, for every unit vector, every start point and every box at least two
   steps wide in each direction (below that no placement rule can satisfy the claim) *)
Theorem C05_step_length_min_image : forall s c L v, 0 < v0 L -> 0 < v1 L -> 0 < v2 L -> 0 <= s ->
  vdot v v = 1 ->
  s * Rabs (v0 v) <= v0 L / 2 -> s * Rabs (v1 v) <= v1 L / 2 -> s * Rabs (v2 v) <= v2 L / 2 ->
  pbc_min_norm (pbc_min_vec (take_step s c L v) c L) = s.
Proof. exact step_length_min_image. Qed.
Print Assumptions C05_step_length_min_image.

(* (T) the step length is step_fudge times the pair size, which is the mean of the two sizes *)
Theorem C05_step_is_fudge_times_mean_size :
  step_length_def = "self.step_fudge * self.nonbond_matrix.get_interaction(self.mol_idx, self.mol_idx, prev_node, current_node)[0]"%string /\
  forall a b ea eb, fst (lorentz_berthelot_rule a b ea eb) = (a + b) / 2.
Proof. exact (conj gen_step_length lb_sigma_is_mean). Qed.
Print Assumptions C05_step_is_fudge_times_mean_size.

(* (T) the start point of an attempt is an element of the start grid, for every random index *)
Theorem C05_first_on_grid :
  grid_start = "self.box_grid[start_idx]"%string /\
  forall (grid : list vec) i p, nth_error grid i = Some p -> In p grid.
Proof. exact (conj gen_grid_start (fun grid i p => @nth_error_In vec grid i p)). Qed.
Print Assumptions C05_first_on_grid.

(* (T) a position is added only under the overlap test (and the restraint tests of C07) *)
Theorem C05_overlap_guards_placement :
  (In "not self._is_overlap(new_point, current_node)" accept_conjuncts /\
   In "not self._is_overlap(self.start, first_node)" first_accept_conjuncts)%string /\
  is_overlap_return = "norm(force_vect) > self.max_force"%string.
Proof. exact (conj (conj (proj1 gen_accept_guards) (proj1 gen_first_guards)) gen_is_overlap). Qed.
Print Assumptions C05_overlap_guards_placement.

(* whenever the force query on a point is not "infinite", every positioned residue within the
   cut-off is at least the floor away from the point (engine invariant of C16) *)
Theorem C05_accepted_is_clear : forall (V : Type) (within tooclose : V -> V -> bool) (s : eng V) p,
  Inv s -> floor_clear within tooclose s p = true ->
  forall h q, row (e_pos s) h = Some q -> within p q = true -> tooclose p q = false.
Proof. exact (fun V => @floor_clear_spec V). Qed.
Print Assumptions C05_accepted_is_clear.

(* every history of add / remove / consolidate in which each added position passed the test:
   at the end no residue added during the history is closer than the floor to any other
   positioned residue within the cut-off -- positions never move once added *)
Theorem C05_final_pairwise_clear :
  forall (V : Type) (thr : nat) (within tooclose : V -> V -> bool),
  (forall p q, within p q = within q p) -> (forall p q, tooclose p q = tooclose q p) ->
  forall ops (s : eng V) (fresh : nat -> Prop) s',
  Inv s -> PairClear within tooclose s fresh -> run_checked thr within tooclose s ops = Some s' ->
  exists fresh' : nat -> Prop, (forall g, fresh g -> fresh' g) /\ PairClear within tooclose s' fresh' /\
    (forall g p, row (e_pos s') g = Some p -> row (e_pos s) g <> Some p -> fresh' g).
Proof. exact (fun V => @checked_history_pairwise_clear V). Qed.
Print Assumptions C05_final_pairwise_clear.

(* the predicates the engine uses (translated pbc_min_dist, floor constant of the source) meet
   the symmetry hypotheses, and "not too close" means at least 0.1 nm under minimum image *)
Theorem C05_engine_predicates : forall L cut p q,
  pbc_within L cut p q = pbc_within L cut q p /\ pbc_tooclose L p q = pbc_tooclose L q p /\
  (pbc_tooclose L p q = false -> 1 / 10 <= pbc_min_norm (pbc_min_vec p q L)).
Proof. exact (fun L cut p q => conj (pbc_within_sym L cut p q) (conj (pbc_tooclose_sym L p q) (pbc_tooclose_false L p q))). Qed.
Print Assumptions C05_engine_predicates.

Example C05_nonvacuous : exists s c L v,
  0 < v0 L /\ 0 <= s /\ vdot v v = 1 /\ s * Rabs (v0 v) <= v0 L / 2 /\
  pbc_min_norm (pbc_min_vec (take_step s c L v) c L) = s.
Proof. exact ex_step. Qed.
