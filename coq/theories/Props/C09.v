(* C09 -- parameters are resolved as GROMACS preprocessing would resolve them.
   Statements only; every proof is `exact <lemma>`; Print Assumptions under each. *)
From Coq Require Import ZArith String List Bool Arith Reals.
From PV Require Import TopTypes RNum Gen_topology_R C09_types.
Import ListNotations.
Close Scope R_scope.
Open Scope nat_scope.

Theorem C09_bonded_exact_or_reversed : forall d atoms t ts,
  (tget t atoms = Some ts -> lookup d atoms t = Some ts) /\
  (tget t atoms = None -> tget t (rev atoms) = Some ts -> lookup d atoms t = Some ts).
Proof. exact (fun d atoms t ts => conj (lookup_exact d atoms t ts) (lookup_reversed d atoms t ts)). Qed.
Print Assumptions C09_bonded_exact_or_reversed.

(* dihedrals: the least-wildcarded matching type, for every table and every atom tuple *)
Theorem C09_dih_least_wildcards : forall atoms t,
  match match_dih atoms t with
  | Some k => In k (keys t) /\ matches k atoms = true /\
              forall k', In k' (keys t) -> matches k' atoms = true -> nwild k <= nwild k'
  | None => forall k', In k' (keys t) -> matches k' atoms = false
  end.
Proof. exact match_dih_least_wildcards. Qed.
Print Assumptions C09_dih_least_wildcards.

(* ... irrespective of the direction in which the atoms are listed *)
Theorem C09_dih_direction_independent : forall atoms t,
  match_dih (rev atoms) t = match_dih atoms t /\
  (tget t atoms = None -> tget t (rev atoms) = None -> lookup true (rev atoms) t = lookup true atoms t).
Proof. exact (fun atoms t => conj (match_dih_direction_independent atoms t) (lookup_dih_direction_independent atoms t)). Qed.
Print Assumptions C09_dih_direction_independent.

(* multi-term types are expanded to all their terms, in table order, in every instance;
   interactions that carry parameters are left alone; a missing type is an error *)
Theorem C09_multi_term_everywhere : forall is_dih t i f ts,
  i_params i = [f] -> lookup is_dih (i_types i) t = Some ts -> ts <> [] ->
  instance_interactions is_dih t [i] =
    inl (map (fun tm => {| i_atoms := i_atoms i; i_types := i_types i; i_params := tm |}) ts).
Proof. exact multi_term_everywhere. Qed.
Print Assumptions C09_multi_term_everywhere.

Theorem C09_frame_and_rejection : forall is_dih t i,
  (List.length (i_params i) <> 1%nat -> instance_interactions is_dih t [i] = inl [i]) /\
  (forall f, i_params i = [f] -> lookup is_dih (i_types i) t = None ->
             instance_interactions is_dih t [i] = inr (NoType (i_atoms i))).
Proof. exact (fun is_dih t i => conj (with_parameters_untouched is_dih t i) (fun f => missing_type_rejected is_dih t i f)). Qed.
Print Assumptions C09_frame_and_rejection.

Theorem C09_defines_substituted : forall d p rest,
  subst_defines d (p :: rest) =
  (match dget d p with Some v => v | None => [p] end ++ subst_defines d rest)%list.
Proof. exact defines_substituted. Qed.
Print Assumptions C09_defines_substituted.

Theorem C09_pairs_symmetric_and_explicit_override :
  forall (num : Type) (comb : num -> num -> num -> num -> num * num),
  (forall t a b, @pget num t (a, b) = pget t (b, a)) /\
  (forall genpairs atypes explicit k v,
     pget explicit k = Some v -> pget (gen_pairs comb genpairs atypes explicit) k = Some v).
Proof. exact (fun num comb => conj (@pairs_symmetric num) (@explicit_overrides_generated num comb)). Qed.
Print Assumptions C09_pairs_symmetric_and_explicit_override.

(* (T) C6/C12 tables are converted to the sigma/epsilon values that reproduce them *)
Theorem C09_sig_eps_reproduce_c6_c12 : forall c6 c12 r : R, (0 < c6 -> 0 < c12 ->
  r * r * r * r * r * r = c12 / c6 ->
  let sig := sig_of c6 c12 r in let eps := eps_of c6 c12 in
  4 * eps * (sig * sig * sig * sig * sig * sig) = c6 /\
  4 * eps * ((sig * sig * sig * sig * sig * sig) * (sig * sig * sig * sig * sig * sig)) = c12)%R.
Proof. exact sig_eps_reproduce_c6_c12. Qed.
Print Assumptions C09_sig_eps_reproduce_c6_c12.

Example C09_nonvacuous :
  match_dih ["D"; "C"; "B"; "A"]%string [(["X"; "B"; "C"; "D"]%string, [["9"; "0"; "1"; "2"]%string]);
                                          (["X"; "B"; "C"; "X"]%string, [["9"; "180"; "5"; "1"]%string])]
  = Some ["X"; "B"; "C"; "D"]%string.
Proof. exact ex_match. Qed.
