(* C19 -- dsDNA completion adds the antiparallel Watson-Crick complement.
   Statements only; every proof is `exact <lemma>`; Print Assumptions under each. *)
From Coq Require Import ZArith String List Bool.
From PV Require Import ListX Dna Gen_dna C19_dna C19_strands.
Import ListNotations.
Open Scope Z_scope.

(* (T) the pairing table as the source defines it now: an involution on its 12 keys that
   pairs A-T and G-C and exchanges the 5'/3' terminal roles (finite check, bound = the table) *)
Theorem C19_table_involution : forall k v,
  tlookup BASE_LIBRARY k = Some v -> tlookup BASE_LIBRARY v = Some k.
Proof. exact (fun k v => involutive_lookup BASE_LIBRARY k v gen_table_involutive). Qed.
Print Assumptions C19_table_involution.

Theorem C19_table_watson_crick : forall k v,
  tlookup BASE_LIBRARY k = Some v ->
  wc (base_of k) (base_of v) = true /\ term_of v = swap_term (term_of k).
Proof. exact (fun k v => watson_crick_lookup BASE_LIBRARY k v gen_table_watson_crick). Qed.
Print Assumptions C19_table_watson_crick.

(* residue n+k of the completed molecule is the complement of residue n+1-k (0-based j) *)
Theorem C19_antiparallel : forall s s' j x,
  comp_strand BASE_LIBRARY s = Some s' -> nth_error s' j = Some x ->
  exists y, nth_error s (List.length s - 1 - j)%nat = Some y /\ tlookup BASE_LIBRARY y = Some x.
Proof. exact (comp_strand_antiparallel BASE_LIBRARY). Qed.
Print Assumptions C19_antiparallel.

Theorem C19_2n_residues : forall s s',
  comp_strand BASE_LIBRARY s = Some s' -> List.length (s ++ s') = (2 * List.length s)%nat.
Proof. exact (comp_strand_2n BASE_LIBRARY). Qed.
Print Assumptions C19_2n_residues.

(* complementing the added strand again recovers the original sequence *)
Theorem C19_double_complement : forall s s',
  comp_strand BASE_LIBRARY s = Some s' -> comp_strand BASE_LIBRARY s' = Some s.
Proof. exact (fun s s' => double_complement BASE_LIBRARY s s' gen_table_involutive). Qed.
Print Assumptions C19_double_complement.

(* unknown residue names are rejected: by the specification ... *)
Theorem C19_unknown_rejected_spec : forall s x,
  In x s -> tlookup BASE_LIBRARY x = None -> comp_strand BASE_LIBRARY s = None.
Proof. exact (comp_strand_unknown BASE_LIBRARY). Qed.
Print Assumptions C19_unknown_rejected_spec.

(* ... and by the algorithm: at the last residue (start of the traversal) and at every
   residue the traversal reaches *)
Theorem C19_unknown_rejected_alg :
  (forall g ln, last (map Some (g_nodes g)) None = Some ln -> tlookup BASE_LIBRARY (n_name ln) = None ->
                complement BASE_LIBRARY g = Err ErrKey) /\
  (forall s prev next nn, find_node (g_nodes (s_g s)) next = Some nn ->
                tlookup BASE_LIBRARY (n_name nn) = None -> body BASE_LIBRARY s prev next = Err ErrIO).
Proof. exact (conj (complement_unknown_last BASE_LIBRARY) (body_unknown BASE_LIBRARY)). Qed.
Print Assumptions C19_unknown_rejected_alg.

(* the original strand is unchanged and separate: for EVERY residue graph whose last node
   has the largest key (all graphs the readers build), whatever the adjacency order *)
Theorem C19_original_strand_unchanged : forall g g' ln,
  last (map Some (g_nodes g)) None = Some ln ->
  Forall (fun n => n_key n <= n_key ln) (g_nodes g) ->
  complement BASE_LIBRARY g = Ok g' ->
  (exists extra, g_nodes g' = g_nodes g ++ extra /\ Forall (fun n => n_key ln < n_key n) extra) /\
  (forall w, w <= n_key ln -> adj_of (g_adj g') w = adj_of (g_adj g) w).
Proof. exact (complement_frame BASE_LIBRARY). Qed.
Print Assumptions C19_original_strand_unchanged.

(* the algorithm itself (edge iterator + loop body of complement_dsDNA) on the graph the sequence
   readers build for a linear strand of ANY length: it terminates within its fuel, the residues
   of the completed molecule are the strand followed by its complement read backwards, numbered
   1 .. 2n *)
Theorem C19_algorithm_on_linear_strands : forall s comps, s <> [] -> comp_strand BASE_LIBRARY s = Some comps ->
  exists g', complement BASE_LIBRARY (linear s) = Ok g' /\ map n_name (g_nodes g') = (s ++ comps)%list /\
             map n_resid (g_nodes g') = map (fun k => Z.of_nat k + 1) (seq 0 (2 * List.length s)).
Proof. exact (complement_linear BASE_LIBRARY). Qed.
Print Assumptions C19_algorithm_on_linear_strands.

(* ... and on the graph parse_ig builds for a circular strand of ANY length >= 3 (chain edges,
   then the labelled closing edge): the iterator closes the ring and stops *)
Theorem C19_algorithm_on_circular_strands : forall s comps, (3 <= List.length s)%nat -> comp_strand BASE_LIBRARY s = Some comps ->
  exists g', complement BASE_LIBRARY (circular s) = Ok g' /\ map n_name (g_nodes g') = (s ++ comps)%list /\
             map n_resid (g_nodes g') = map (fun k => Z.of_nat k + 1) (seq 0 (2 * List.length s)).
Proof. exact (complement_circular BASE_LIBRARY). Qed.
Print Assumptions C19_algorithm_on_circular_strands.

Example C19_nonvacuous :
  comp_strand BASE_LIBRARY ["DA5"; "DG"; "DC3"]%string = Some ["DG5"; "DC"; "DT3"]%string.
Proof. exact ex_spec3. Qed.

(* whatever the node keys of the strand (a .json graph may number its nodes in any order): the keys handed to the added
   residues start above the highest key in use, so no residue of the original strand is overwritten *)
Theorem C19_new_keys_are_fresh : forall g k,
  Forall (fun n => n_key n < kmax g k + 1) (g_nodes g) /\ k < kmax g k + 1.
Proof. exact kmax_fresh. Qed.
Print Assumptions C19_new_keys_are_fresh.
