(* C11 -- generated .itp files are written and re-read to the same molecule.
   Statements only; every proof is `exact <lemma>`; Print Assumptions under each. *)
From Coq Require Import String List Bool Arith.
From PV Require Import Itp C11_itp C11_resgraph.
Import ListNotations.
Open Scope string_scope.

(* reading the written file back yields the same name, nrexcl, atoms (type, residue id and
   name, atom name, charge group, charge, mass) and the same interactions with their
   parameters and #ifdef/#ifndef guards, for every molecule, section layout and order;
   impropers come back in [ dihedrals ] *)
Theorem C11_roundtrip : forall idxs name nrexcl atoms sects,
  length idxs = length atoms -> plain name -> Forall WFa atoms -> Forall WFs sects ->
  read (write idxs name nrexcl atoms sects) = Some (canon (mol_of name nrexcl atoms sects)).
Proof. exact read_write_roundtrip. Qed.
Print Assumptions C11_roundtrip.

Theorem C11_roundtrip_members : forall idxs name nrexcl atoms sects m,
  length idxs = length atoms -> plain name -> Forall WFa atoms -> Forall WFs sects ->
  read (write idxs name nrexcl atoms sects) = Some m ->
  m_atoms m = atoms /\ forall i, In i (m_inters m) <-> exists c g it, In c sects /\ In g (c_groups c) /\ In it (g_items g) /\
      i = {| i_sec := out_section (c_name c); i_atoms := fst it; i_params := snd it; i_guard := g_guard g |}.
Proof. exact roundtrip_members. Qed.
Print Assumptions C11_roundtrip_members.

(* items of the sections gen_params writes are well formed: the right number of atom indices
   (any number for exclusions), none of them a directive token *)
Theorem C11_items_wellformed : forall sec k ats ps,
  arity sec = Some k -> sec <> "exclusions" -> length ats = k -> (1 <= k)%nat -> plain (hd "" ats) -> WFit sec (ats, ps).
Proof. exact WFit_fixed. Qed.
Print Assumptions C11_items_wellformed.

(* the residue graph rebuilt from the bonds and constraints of the file equals the requested
   one when every bonded pair stays within a residue or a requested edge and every requested
   edge is realised by a bond or constraint *)
Theorem C11_residue_graph : forall resid req bonded,
  (forall a b, In (a, b) bonded -> resid a = resid b \/ adj req (resid a) (resid b)) ->
  (forall u v, In (u, v) req -> u <> v /\ exists a b, (In (a, b) bonded \/ In (b, a) bonded) /\ resid a = u /\ resid b = v) ->
  same_graph (res_edges resid bonded) req.
Proof. exact recovered_eq_requested. Qed.
Print Assumptions C11_residue_graph.

(* ... but "no link is missing" as gen_params decides it (on molecule edges, which [ edges ]
   and angles also create) does not imply it: known finding F11 *)
Theorem C11_no_missing_not_sufficient_refuted :
  exists (resid : nat -> nat) (req mol_edges bonded : list (nat * nat)),
    (forall u v, In (u, v) req -> exists a b, In (a, b) mol_edges /\ resid a = u /\ resid b = v) /\
    ~ same_graph (res_edges resid bonded) req.
Proof. exact no_missing_not_sufficient_refuted. Qed.
Print Assumptions C11_no_missing_not_sufficient_refuted.

Example C11_nonvacuous :
  same_graph (res_edges (fun a => a / 2) [(0, 1); (1, 2); (2, 3); (3, 4)]) [(0, 1); (1, 2)].
Proof. exact ex_recovered. Qed.
