(* C12 -- sequence inputs produce exactly the specified residue graph.
   Statements only; every proof is `exact <lemma>`; Print Assumptions under each. *)
From Coq Require Import String Ascii List Bool Arith.
From PV Require Import SeqParse Gen_seqtables C12_seq.
Import ListNotations.

(* residues in input order (resid = position + 1), connected linearly and not otherwise *)
Theorem C12_linear : forall names,
  g_names (linear names) = names /\
  forall a b l, In (a, b, l) (g_edges (linear names)) <-> l = false /\ b = S a /\ b < length names.
Proof. exact linear_spec. Qed.
Print Assumptions C12_linear.

Theorem C12_seq_option : forall ms,
  g_names (from_seq ms) = flat_map (fun m => repeat (fst m) (snd m)) ms /\
  length (g_names (from_seq ms)) = fold_right (fun m acc => snd m + acc) 0 ms.
Proof. exact from_seq_spec. Qed.
Print Assumptions C12_seq_option.

(* .txt: all line breakings of a stream of clean tokens, single-space separated, no blank lines *)
Theorem C12_txt_linebreak_invariant : forall ls : list (list (list ascii)),
  Forall (fun toks => toks <> [] /\ Forall clean toks) ls ->
  txt_tokensL (map joinL ls) = concat ls.
Proof. exact txt_linebreak_invariant. Qed.
Print Assumptions C12_txt_linebreak_invariant.

(* one-letter translation: position by position through the table of the source (T), unknown
   letters rejected *)
Theorem C12_translation : forall a letters names, translate a letters = Some names ->
  length names = length letters /\ forall k c, nth_error letters k = Some c -> option_map Some (nth_error names k) = Some (one_letter a c).
Proof. exact translate_nth. Qed.
Print Assumptions C12_translation.

Theorem C12_unknown_letter_rejected : forall a letters c, In c letters -> one_letter a c = None -> translate a letters = None.
Proof. exact translate_unknown. Qed.
Print Assumptions C12_unknown_letter_rejected.

Theorem C12_tables_are_source : forall c,
  one_letter DNA c = table_get ONE_LETTER_DNA (String c EmptyString) /\
  one_letter RNA c = table_get ONE_LETTER_RNA (String c EmptyString) /\
  one_letter AA c = table_get ONE_LETTER_AA (String c EmptyString).
Proof. exact one_letter_is_source_table. Qed.
Print Assumptions C12_tables_are_source.

Theorem C12_termini : forall a x mid y,
  add_termini a (x :: mid ++ [y]) =
  if nucleic a then (x ++ "5")%string :: mid ++ [(y ++ "3")%string] else x :: mid ++ [y].
Proof. exact termini_spec. Qed.
Print Assumptions C12_termini.

Theorem C12_ig_circular : forall a lines names,
  translate a (letters_of lines) = Some names -> 3 <= length names ->
  exists g, parse_ig a true lines = Some g /\ g_names g = names /\
    forall x y l, In (x, y, l) (g_edges g) <-> (l = false /\ y = S x /\ y < length names) \/ (x = 0 /\ y = length names - 1 /\ l = true).
Proof. exact ig_circular_spec. Qed.
Print Assumptions C12_ig_circular.

Theorem C12_circular_guard : circular_strip_guard = ["ter_char == '2'"; "DNA or RNA"]%string.
Proof. exact gen_circular_guard. Qed.
Print Assumptions C12_circular_guard.

(* macro trees: node k > 0 hangs under (k-1)/r, which is smaller *)
Theorem C12_macro_tree : forall r n p k l,
  In (p, k, l) (tree_edges r n) <-> l = false /\ 1 <= k < n /\ p = (k - 1) / r.
Proof. exact tree_edges_spec. Qed.
Print Assumptions C12_macro_tree.

Theorem C12_tree_parent_smaller : forall r k, 1 <= r -> 1 <= k -> (k - 1) / r < k.
Proof. exact tree_parent_smaller. Qed.
Print Assumptions C12_tree_parent_smaller.

(* sequence of blocks: consecutive key ranges in order; connects add exactly the stated edge *)
Theorem C12_sequence_union : forall blocks off,
  fst (fst (union blocks off)) = concat (map g_names blocks) /\
  length (snd (union blocks off)) = length blocks /\
  forall i, i < length blocks -> nth_error (snd (union blocks off)) i = Some (off + length (concat (map g_names (firstn i blocks)))).
Proof. exact union_spec. Qed.
Print Assumptions C12_sequence_union.

Theorem C12_connect : forall offs sizes c e,
  connect_edge offs sizes c = Some e ->
  exists oi oj si sj, nth_error offs (c_i c) = Some oi /\ nth_error offs (c_j c) = Some oj /\
    nth_error sizes (c_i c) = Some si /\ nth_error sizes (c_j c) = Some sj /\ c_a c < si /\ c_b c < sj /\ e = (oi + c_a c, oj + c_b c, false).
Proof. exact connect_spec. Qed.
Print Assumptions C12_connect.

(* a comment naming PROTEIN together with DNA or RNA: every letter goes through the DNA, RNA, amino-acid tables in this
   order -- a function of the keywords and the letter alone, so of nothing read earlier; with one keyword it is the
   single-table translation above *)
Theorem C12_mixed_keywords_precedence : forall k c x,
  one_letter_mix k c = Some x <->
  (k_dna k = true /\ one_letter DNA c = Some x) \/
  ((k_dna k = false \/ one_letter DNA c = None) /\ k_rna k = true /\ one_letter RNA c = Some x) \/
  ((k_dna k = false \/ one_letter DNA c = None) /\ (k_rna k = false \/ one_letter RNA c = None) /\ k_aa k = true /\ one_letter AA c = Some x).
Proof. exact one_letter_mix_precedence. Qed.
Print Assumptions C12_mixed_keywords_precedence.

Theorem C12_single_keyword : forall a lines, parse_plain_mix (kinds_of a) lines = parse_plain a lines.
Proof. exact parse_plain_mix_single. Qed.
Print Assumptions C12_single_keyword.

Example C12_mixed_nonvacuous :
  parse_plain_mix {| k_dna := true; k_rna := false; k_aa := true |} ["MAG"%string; "T"%string] = Some (linear ["MET5"; "DA"; "DG"; "DT3"]%string).
Proof. exact ex_mixed_header. Qed.

Example C12_nonvacuous :
  parse_ig DNA true ["ACG"%string; "T"%string] = Some {| g_names := ["DA"; "DC"; "DG"; "DT"]%string; g_edges := [(0, 1, false); (1, 2, false); (2, 3, false); (0, 3, true)] |}
  /\ parse_plain RNA ["AT"%string; "G"%string] = Some (linear ["A5"; "U"; "G3"]%string)
  /\ g_names (parse_txt ["PEO PEO"%string; " PS "%string]) = ["PEO"; "PEO"; "PS"]%string.
Proof. exact ex_seq. Qed.
