(* C04 -- supplied coordinates are preserved; only missing parts are built.
   Statements only; every proof is `exact <lemma>`; Print Assumptions under each. *)
From Coq Require Import ZArith String List Bool Arith.
From PV Require Import Consume C04_consume Walk C17_walk Gen_build.
Import ListNotations.

(* the coordinates handed to residues are the file's, in file order, none skipped or reused *)
Theorem C04_consumed_is_file_prefix : forall (P : Type) (cog : list P -> P) b skip rs rest sts rest',
  consume cog b skip rs rest = COk sts rest' -> (concat (map used sts) ++ rest' = rest)%list.
Proof. exact consume_used_prefix. Qed.
Print Assumptions C04_consumed_is_file_prefix.

Theorem C04_one_state_per_residue : forall (P : Type) (cog : list P -> P) b skip rs rest sts rest',
  consume cog b skip rs rest = COk sts rest' -> length sts = length rs.
Proof. exact consume_length. Qed.
Print Assumptions C04_one_state_per_residue.

(* generated = named for rebuilding or missing from the input, and nothing else *)
Theorem C04_build_flag_exact : forall (P : Type) (cog : list P -> P) b skip r rest st rest',
  consume_res cog b skip r rest = Some (st, rest') ->
  (st = RBuild <-> (skip (r_name r) = true \/ rest = [])) /\ (st = RBuild -> rest' = rest).
Proof. exact build_flag_exact. Qed.
Print Assumptions C04_build_flag_exact.

Theorem C04_state_kind : forall (P : Type) (cog : list P -> P) b skip r rest st rest',
  consume_res cog b skip r rest = Some (st, rest') ->
  match st with
  | RBuild => True
  | RCentre p => b = false /\ exists tl, rest = p :: tl
  | RAtoms ps c => b = true /\ ps = firstn (r_natoms r) rest /\ length ps = r_natoms r /\ c = cog ps
  end.
Proof. exact state_kind. Qed.
Print Assumptions C04_state_kind.

Theorem C04_partial_residue_rejected : forall (P : Type) (cog : list P -> P) skip r (rest : list P),
  skip (r_name r) = false -> rest <> [] -> length rest < r_natoms r -> consume_res cog true skip r rest = None.
Proof. exact partial_residue_rejected. Qed.
Print Assumptions C04_partial_residue_rejected.

(* for every outcome of the walk and of backmapping *)
Theorem C04_supplied_preserved : forall (P : Type) (walk walk' : nat -> P) (backmap backmap' : nat -> P -> list P) i st,
  match st with
  | RAtoms ps c => final_atoms walk backmap i st = ps /\ final_atoms walk' backmap' i st = ps /\ final_centre walk i st = c
  | RCentre p => final_centre walk i st = p /\ final_atoms walk backmap i st = backmap i p /\ final_centre walk' i st = p
  | RBuild => final_centre walk i st = walk i /\ final_atoms walk backmap i st = backmap i (walk i)
  end.
Proof. exact supplied_preserved. Qed.
Print Assumptions C04_supplied_preserved.

(* a failed placement attempt never alters or discards supplied coordinates: every abandoned
   attempt leaves exactly the supplied residues positioned (C17's attempt loop), given that the
   clean-up set of the source is the set of buildable residues (T) *)
Theorem C04_failed_attempt_keeps_supplied :
  forall path build nrewind maxiter root root_attr pre,
  1 <= nrewind -> NoDup (map snd path) ->
  (forall i p c, nth_error path i = Some (p, c) ->
     p = root \/ exists j q, j < i /\ nth_error path j = Some (q, p)) ->
  ~ In root (map snd path) ->
  (forall n, In n (map snd path) -> build n = false -> In n pre) ->
  (forall n, In n (map snd path) -> build n = true -> ~ In n pre) ->
  (root_attr = true <-> In root pre) ->
  forall attempts_max cleanup,
  (forall n, In n cleanup <-> ((n = root /\ root_attr = false) \/ (In n (map snd path) /\ build n = true))) ->
  forall fuel attempts k pos, NoDup pos -> same_set pos pre ->
  match handle path build nrewind maxiter attempts_max fuel root root_attr cleanup pos k attempts with
  | HDone true p => molecule_positioned path root p
  | HDone false p => NoDup p /\ same_set p pre
  | HCrashed _ => False
  | HOut => True
  end.
Proof. exact handle_sound. Qed.
Print Assumptions C04_failed_attempt_keeps_supplied.

Theorem C04_cleanup_is_built_only : cleanup_all = false.
Proof. exact gen_cleanup_built_only. Qed.
Print Assumptions C04_cleanup_is_built_only.

(* ignored molecules: no engine slot (not moved, not consulted); every other molecule is
   addressed by its topology index wherever the ignored ones stand *)
Theorem C04_engine_slots_exact : forall ign mols i m,
  slot_of (slots ign mols) i = Some m <-> nth_error mols i = Some m /\ ign m = false.
Proof. exact slots_exact. Qed.
Print Assumptions C04_engine_slots_exact.

(* numbering the engine along the filtered list (the code before the repair, F4) is wrong *)
Theorem C04_filtered_numbering_refuted :
  exists ign mols i m, nth_error mols i = Some m /\ ign m = false /\
    slot_of (enumerate_from 0 (filter (fun x => negb (ign x)) mols)) i <> Some m.
Proof. exact filtered_numbering_refuted. Qed.
Print Assumptions C04_filtered_numbering_refuted.

Example C04_nonvacuous :
  consume (fun l => hd 0 l) true (fun n => String.eqb n "B")
    [{| r_name := "A"; r_natoms := 2 |}; {| r_name := "B"; r_natoms := 1 |}; {| r_name := "A"; r_natoms := 1 |}; {| r_name := "A"; r_natoms := 3 |}]%string
    [10; 11; 12] = COk [RAtoms [10; 11] 10; RBuild; RAtoms [12] 12; RBuild] [].
Proof. exact ex_consume. Qed.
