From PV Require Import TopPre.
