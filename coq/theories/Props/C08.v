(* C08 -- a topology is read as its preprocessed, flattened equivalent.
   Statements only; every proof is `exact <lemma>`; Print Assumptions under each. *)
From Coq Require Import String Ascii List Bool Arith.
From PV Require Import TopPre Gen_top C08_top.
Import ListNotations.
Open Scope string_scope.

Theorem C08_include_condition : forall known fs rd cwdir s line p rest,
  plain_pragma line -> tokens line = "#include" :: p :: rest ->
  do_line known fs rd cwdir s line =
  if active s then
    let path := unquote p in
    let filename := if String.eqb cwdir "" then path else join cwdir path in
    match fs filename with
    | None => Err ErrIO
    | Some ls => match rd (dirname filename) ls (d_sh s) with Ok sh => Ok (with_sh s sh) | Err e => Err e end
    end
  else Ok s.
Proof. exact include_condition. Qed.
Print Assumptions C08_include_condition.

Theorem C08_active_spec : forall s,
  active s = true <->
  d_meta s = None \/
  (exists t, d_meta s = Some (t, true) /\ defined (sh_defines (d_sh s)) t = true) \/
  (exists t, d_meta s = Some (t, false) /\ defined (sh_defines (d_sh s)) t = false).
Proof. exact active_spec. Qed.
Print Assumptions C08_active_spec.

Theorem C08_error_exact : forall known fs rd cwdir s line rest,
  plain_pragma line -> tokens line = "#error" :: rest ->
  do_line known fs rd cwdir s line = if active s then Err ErrNotImpl else Ok s.
Proof. exact error_exact. Qed.
Print Assumptions C08_error_exact.

Theorem C08_else_inverts_and_no_nesting : forall known fs rd cwdir s line,
  starts "#" line = true -> String.eqb line "#endif" = false -> itp_nonempty s = false ->
  (forall t c, starts "#else" line = true -> d_meta s = Some (t, c) ->
     do_line known fs rd cwdir s line = Ok (with_meta s (Some (t, negb c)))) /\
  (forall m, starts "#else" line = false -> (starts "#ifdef" line || starts "#ifndef" line) = true -> d_meta s = Some m ->
     do_line known fs rd cwdir s line = Err ErrIO).
Proof.
  exact (fun known fs rd cwdir s line H1 H2 H3 =>
    conj (fun t c H4 H5 => else_inverts known fs rd cwdir s line t c H1 H2 H4 H3 H5)
         (fun m H4 H5 H6 => nested_conditional_rejected known fs rd cwdir s line m H1 H2 H4 H5 H3 H6)).
Qed.
Print Assumptions C08_else_inverts_and_no_nesting.

Theorem C08_define_always : forall known fs rd cwdir s line tag params,
  plain_pragma line -> tokens line = "#define" :: tag :: params ->
  exists s', do_line known fs rd cwdir s line = Ok s' /\
             sh_defines (d_sh s') = dset (sh_defines (d_sh s)) tag params /\ d_meta s' = d_meta s.
Proof. exact define_always. Qed.
Print Assumptions C08_define_always.

(* independent of comments, blank lines, star lines and whitespace *)
Theorem C08_decoration_invariance :
  (forall s c, (forall x, In x (list_ascii_of_string s) -> x <> ";"%char) -> clean (s ++ String ";"%char c) = clean s) /\
  (forall w s, is_ws w = true -> tokens (String w s) = tokens s) /\
  (forall w s cur, is_ws w = true -> cur <> "" -> tokens_aux (String w (String w s)) cur = tokens_aux (String w s) cur) /\
  (forall known fs rd cwdir s raw r, clean raw = "" ->
     do_lines known fs rd cwdir s (raw :: r) = do_lines known fs rd cwdir s r) /\
  (forall known fs rd cwdir s line, starts "#" line = false -> starts "*" line = true ->
     do_line known fs rd cwdir s line = Ok s).
Proof.
  exact (conj comment_invariant (conj tokens_leading_ws (conj tokens_aux_ws_run (conj blank_skipped star_skipped)))).
Qed.
Print Assumptions C08_decoration_invariance.

(* the molecule list is the [molecules] section expanded in order with the stated counts *)
Theorem C08_molecules_expanded :
  (forall n c r, expand ((n, c) :: r) = (repeat n c ++ expand r)%list) /\
  (forall es, List.length (expand es) = fold_right (fun e a => snd e + a) 0 es) /\
  (forall es x, In x (expand es) <-> exists c, In (x, c) es /\ 0 < c).
Proof. exact (conj expand_cons (conj expand_length expand_in)). Qed.
Print Assumptions C08_molecules_expanded.

(* (T) section stack over the registered sections of the source *)
Theorem C08_section_stack :
  forallb (fun x => forallb (fun y =>
     slist_eqb (settle top_known_sections 4 ["moleculetype"; x; y]) ["moleculetype"; y]) sub_sections) sub_sections = true.
Proof. exact (proj1 gen_section_stack). Qed.
Print Assumptions C08_section_stack.

Example C08_nonvacuous :
  clean "  [ atoms ]   ; comment" = "[ atoms ]" /\ tokens " 1  TA " = ["1"; "TA"] /\
  plain_pragma "#include ""a/b.itp""" /\ dirname "lib/ff/ff.itp" = "lib/ff".
Proof. exact ex_clean. Qed.
