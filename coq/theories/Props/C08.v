(* C08 -- a topology is read as its preprocessed, flattened equivalent.
   Statements only; every proof is `exact <lemma>`; Print Assumptions under each. *)
From Coq Require Import String Ascii List Bool Arith.
From PV Require Import TopPre Gen_top C08_top C08_inline_base C08_inline.
Import ListNotations.
Open Scope string_scope.

Theorem C08_include_condition : forall known fs rd cwdir s line p rest,
  plain_pragma line -> tokens line = "#include" :: p :: rest ->
  do_line known fs rd cwdir s line =
  if active s then
    let path := unquote p in
    let filename := if String.eqb cwdir "" then path else join cwdir path in
    match fs filename with
    | None => Err ErrIO
    | Some ls => match rd (dirname filename) ls (d_sh s) with Ok sh => Ok (with_sh s sh) | Err e => Err e end
    end
  else Ok s.
Proof. exact include_condition. Qed.
Print Assumptions C08_include_condition.

Theorem C08_active_spec : forall s,
  active s = true <->
  d_meta s = None \/
  (exists t, d_meta s = Some (t, true) /\ defined (sh_defines (d_sh s)) t = true) \/
  (exists t, d_meta s = Some (t, false) /\ defined (sh_defines (d_sh s)) t = false).
Proof. exact active_spec. Qed.
Print Assumptions C08_active_spec.

Theorem C08_error_exact : forall known fs rd cwdir s line rest,
  plain_pragma line -> tokens line = "#error" :: rest ->
  do_line known fs rd cwdir s line = if active s then Err ErrNotImpl else Ok s.
Proof. exact error_exact. Qed.
Print Assumptions C08_error_exact.

Theorem C08_else_inverts_and_no_nesting : forall known fs rd cwdir s line,
  starts "#" line = true -> String.eqb line "#endif" = false -> itp_nonempty s = false ->
  (forall t c, starts "#else" line = true -> d_meta s = Some (t, c) ->
     do_line known fs rd cwdir s line = Ok (with_meta s (Some (t, negb c)))) /\
  (forall m, starts "#else" line = false -> (starts "#ifdef" line || starts "#ifndef" line) = true -> d_meta s = Some m ->
     do_line known fs rd cwdir s line = Err ErrIO).
Proof.
  exact (fun known fs rd cwdir s line H1 H2 H3 =>
    conj (fun t c H4 H5 => else_inverts known fs rd cwdir s line t c H1 H2 H4 H3 H5)
         (fun m H4 H5 H6 => nested_conditional_rejected known fs rd cwdir s line m H1 H2 H4 H5 H3 H6)).
Qed.
Print Assumptions C08_else_inverts_and_no_nesting.

Theorem C08_define_always : forall known fs rd cwdir s line tag params,
  plain_pragma line -> tokens line = "#define" :: tag :: params ->
  exists s', do_line known fs rd cwdir s line = Ok s' /\
             sh_defines (d_sh s') = dset (sh_defines (d_sh s)) tag params /\ d_meta s' = d_meta s.
Proof. exact define_always. Qed.
Print Assumptions C08_define_always.

(* independent of comments, blank lines, star lines and whitespace *)
Theorem C08_decoration_invariance :
  (forall s c, (forall x, In x (list_ascii_of_string s) -> x <> ";"%char) -> clean (s ++ String ";"%char c) = clean s) /\
  (forall w s, is_ws w = true -> tokens (String w s) = tokens s) /\
  (forall w s cur, is_ws w = true -> cur <> "" -> tokens_aux (String w (String w s)) cur = tokens_aux (String w s) cur) /\
  (forall known fs rd cwdir s raw r, clean raw = "" ->
     do_lines known fs rd cwdir s (raw :: r) = do_lines known fs rd cwdir s r) /\
  (forall known fs rd cwdir s line, starts "#" line = false -> starts "*" line = true ->
     do_line known fs rd cwdir s line = Ok s).
Proof.
  exact (conj comment_invariant (conj tokens_leading_ws (conj tokens_aux_ws_run (conj blank_skipped star_skipped)))).
Qed.
Print Assumptions C08_decoration_invariance.

(* the molecule list is the [molecules] section expanded in order with the stated counts *)
Theorem C08_molecules_expanded :
  (forall n c r, expand ((n, c) :: r) = (repeat n c ++ expand r)%list) /\
  (forall es, List.length (expand es) = fold_right (fun e a => snd e + a) 0 es) /\
  (forall es x, In x (expand es) <-> exists c, In (x, c) es /\ 0 < c).
Proof. exact (conj expand_cons (conj expand_length expand_in)). Qed.
Print Assumptions C08_molecules_expanded.

(* (T) section stack over the registered sections of the source *)
Theorem C08_section_stack :
  forallb (fun x => forallb (fun y =>
     slist_eqb (settle top_known_sections 4 ["moleculetype"; x; y]) ["moleculetype"; y]) sub_sections) sub_sections = true.
Proof. exact (proj1 gen_section_stack). Qed.
Print Assumptions C08_section_stack.

(* textual inlining, for files without molecule types: an unconditional #include of a file that holds only top-level sections
   (defaults, atom types, type tables, [ system ] / [ molecules ] lists; defines, conditionals and nested includes allowed; every content
   line after a header of the file) is read exactly as if the lines of the file stood in place of the #include line --
   nested includes resolved relative to the included file -- followed by a check that its conditionals are closed; the only
   trace it leaves beyond that is the current-section register, which the next section header overwrites *)
Theorem C08_include_is_textual_inlining :
  (forall fs fuel cwd s line p rest ls',
     tbl s -> d_meta s = None -> plain_sec (d_sec s) = true ->
     plain_pragma line -> tokens line = "#include" :: p :: rest ->
     let filename := if String.eqb cwd "" then unquote p else join cwd (unquote p) in
     fs filename = Some ls' -> tbl_lines false ls' = true ->
     do_line top_known_sections fs (read top_known_sections fs (S fuel)) cwd s line =
     match do_lines top_known_sections fs (read top_known_sections fs fuel) (dirname filename) s ls' with
     | Ok s' => match d_meta s' with None => Ok (set_sec s' (d_sec s)) | Some _ => Err ErrIO end
     | Err e => Err e
     end) /\
  (forall fs rd cwd s secA secB line,
     tbl s -> plain_sec secA = true -> plain_sec secB = true ->
     starts "#" line = false -> starts "*" line = false -> starts "[" line = true -> plain_hdr line = true ->
     do_line top_known_sections fs rd cwd (set_sec s secA) line = do_line top_known_sections fs rd cwd (set_sec s secB) line).
Proof. exact (conj (fun fs => include_inlined fs) register_forgotten). Qed.
Print Assumptions C08_include_is_textual_inlining.

Example C08_inlining_nonvacuous :
  tbl ex_state /\
  exists s', do_line top_known_sections ex_fs (read top_known_sections ex_fs 3) "" ex_state "#include ""ff/ff.itp""" = Ok s' /\
             List.length (sh_content (d_sh s')) = 3%nat /\ defined (sh_defines (d_sh s')) "FLEX" = true /\ d_sec s' = ["defaults"].
Proof. exact (conj (proj1 ex_inlined) (proj2 (proj2 ex_inlined))). Qed.

Example C08_nonvacuous :
  clean "  [ atoms ]   ; comment" = "[ atoms ]" /\ tokens " 1  TA " = ["1"; "TA"] /\
  plain_pragma "#include ""a/b.itp""" /\ dirname "lib/ff/ff.itp" = "lib/ff".
Proof. exact ex_clean. Qed.
