(* C20 -- outputs appear only after success and never clobber existing files.
   Statements only; every proof is `exact <lemma>`; Print Assumptions under each. *)
From Coq Require Import Arith String List Bool.
From PV Require Import EffectKinds Effects Gen_effects C20_effects.
Import ListNotations.

(* an exception raised after any number k of statements not beyond the first statement that can
   touch the output directory leaves that directory exactly as it was (and the prefix runs) *)
Theorem C20_crash_before_visible :
  forall (content : Type) (empty : content) (bk : string -> nat -> string) out data prog k s,
  k <= first_visible prog ->
  exists s', run content empty bk out data (firstn k prog) s = Some s' /\ e_fs content s' = e_fs content s.
Proof. exact crash_before_visible. Qed.
Print Assumptions C20_crash_before_visible.

(* (T) gen_params and gen_coords as the source defines them now: everything before the flush of
   the deferred writer is invisible, the first visible statement is that flush, and only
   non-writing statements follow it; gen_seq: stages, then open-for-writing and dump, last *)
Theorem C20_programs_write_last :
  deferred_shape (kinds prog_gen_params) = true /\
  deferred_shape (kinds prog_gen_coords) = true /\
  direct_shape (kinds prog_gen_seq) = true.
Proof. exact (conj gen_params_shape (conj gen_coords_shape gen_seq_shape)). Qed.
Print Assumptions C20_programs_write_last.

Theorem C20_first_visible_is_flush : forall prog,
  deferred_shape prog = true -> nth_error prog (first_visible prog) = Some Flush.
Proof. exact shape_first_visible_is_write. Qed.
Print Assumptions C20_first_visible_is_flush.

(* the flush: complete new content in place; a previous file kept under the first free
   Gromacs-style backup name with its content; every other file untouched *)
Theorem C20_flush_backs_up :
  forall (content : Type) (bk : string -> nat -> string) f final data f',
  (forall k, bk final k <> final) ->
  write_file content bk f final data = Some f' ->
  lookup content f' final = Some data /\
  match lookup content f final with
  | None => forall m, m <> final -> lookup content f' m = lookup content f m
  | Some old => exists k, 1 <= k /\ lookup content f (bk final k) = None /\
                 (forall i, 1 <= i < k -> lookup content f (bk final i) <> None) /\
                 lookup content f' (bk final k) = Some old /\
                 forall m, m <> final -> m <> bk final k -> lookup content f' m = lookup content f m
  end.
Proof. exact write_file_backs_up. Qed.
Print Assumptions C20_flush_backs_up.

Example C20_nonvacuous : first_visible (kinds prog_gen_coords) = 29 /\ first_visible (kinds prog_gen_seq) = 7.
Proof. exact ex_first_visible. Qed.
