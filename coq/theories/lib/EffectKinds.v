(* statement kinds of the effect skeletons extracted from gen_params / gen_coords / gen_seq *)
Inductive stmt_kind :=
| Stage            (* computation that may raise; no effect on the output directory *)
| OpenDeferred     (* deferred_open(out, 'w'): a temporary file elsewhere is created and queued *)
| WriteTmp         (* write into that temporary file *)
| WriteDeferred    (* write_gro: deferred open + write of the temporary file *)
| Flush            (* DeferredFileWriter().write(): back up an existing file, move the temporary file in place *)
| OpenTruncate     (* open(out, 'w'): creates / truncates the output file *)
| Dump             (* json.dump into the opened output file *)
| NestedOpenDeferred | NestedWriteTmp | NestedWriteDeferred | NestedFlush | NestedOpenTruncate | NestedDump.
