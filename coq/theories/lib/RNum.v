(* Real-number instance of the numeric interface used by translated kernels.
   The translator (gen/translate.py) emits the same definition text against this file
   (for theorems, over R) and against FNum.v (for evaluation, over PrimFloat). *)
From Coq Require Import Reals Lra List.
Import ListNotations.
Open Scope R_scope.

Definition num := R.
Definition vec := (R * R * R)%type.
Definition mat := (vec * vec * vec)%type.

Definition nconst_Q (n d : Z) : R := IZR n / IZR d.
Definition nsqrt (x : R) : R := sqrt x.
Definition nabs (x : R) : R := Rabs x.
(* x ** (1/3.): real cube root of a positive number *)
Definition ncbrt (x : R) : R := Rpower x (/ 3).
Definition nltb (a b : R) : bool := if Rlt_dec a b then true else false.
Definition nleb (a b : R) : bool := if Rle_dec a b then true else false.
Definition ngtb (a b : R) : bool := nltb b a.
Definition ngeb (a b : R) : bool := nleb b a.
Definition nmin (a b : R) : R := Rmin a b.
Definition nmax (a b : R) : R := Rmax a b.
(* Python float %: result carries the sign of the divisor: x - floor(x/y)*y *)
Definition nfloor (x : R) : R := IZR (Int_part x).
Definition nmod (x y : R) : R := x - y * nfloor (x / y).
Definition nsign (x : R) : R := if Rlt_dec x 0 then -1 else if Rlt_dec 0 x then 1 else 0.

Lemma nltb_true a b : nltb a b = true <-> a < b.
Proof. unfold nltb; destruct (Rlt_dec a b); split; intros; try easy. Qed.
Lemma nltb_false a b : nltb a b = false <-> b <= a.
Proof. unfold nltb; destruct (Rlt_dec a b); split; intros; try easy; lra. Qed.
Lemma nleb_true a b : nleb a b = true <-> a <= b.
Proof. unfold nleb; destruct (Rle_dec a b); split; intros; try easy. Qed.
Lemma nleb_false a b : nleb a b = false <-> b < a.
Proof. unfold nleb; destruct (Rle_dec a b); split; intros; try easy; lra. Qed.
Lemma ngtb_true a b : ngtb a b = true <-> b < a.
Proof. apply nltb_true. Qed.
Lemma ngtb_false a b : ngtb a b = false <-> a <= b.
Proof. apply nltb_false. Qed.
Lemma ngeb_true a b : ngeb a b = true <-> b <= a.
Proof. apply nleb_true. Qed.
Lemma ngeb_false a b : ngeb a b = false <-> a < b.
Proof. apply nleb_false. Qed.

(* ---- vectors ---- *)
Definition mkv (a b c : R) : vec := (a, b, c).
Definition v0 (v : vec) : R := fst (fst v).
Definition v1 (v : vec) : R := snd (fst v).
Definition v2 (v : vec) : R := snd v.
Definition vzero : vec := (0, 0, 0).
Definition vadd (a b : vec) : vec := (v0 a + v0 b, v1 a + v1 b, v2 a + v2 b).
Definition vsub (a b : vec) : vec := (v0 a - v0 b, v1 a - v1 b, v2 a - v2 b).
Definition vneg (a : vec) : vec := (- v0 a, - v1 a, - v2 a).
Definition vscale (s : R) (a : vec) : vec := (s * v0 a, s * v1 a, s * v2 a).
Definition vscale_r (a : vec) (s : R) : vec := (v0 a * s, v1 a * s, v2 a * s).
Definition vdivs (a : vec) (s : R) : vec := (v0 a / s, v1 a / s, v2 a / s).
Definition vmul (a b : vec) : vec := (v0 a * v0 b, v1 a * v1 b, v2 a * v2 b).
Definition vdot (a b : vec) : R := v0 a * v0 b + v1 a * v1 b + v2 a * v2 b.
Definition vcross (a b : vec) : vec :=
  (v1 a * v2 b - v2 a * v1 b, v2 a * v0 b - v0 a * v2 b, v0 a * v1 b - v1 a * v0 b).
Definition vnorm (a : vec) : R := sqrt (vdot a a).
Definition vnorm_xy (a : vec) := sqrt (v0 a * v0 a + v1 a * v1 a).
Definition vmod (a b : vec) : vec := (nmod (v0 a) (v0 b), nmod (v1 a) (v1 b), nmod (v2 a) (v2 b)).
Definition vabs (a : vec) : vec := (Rabs (v0 a), Rabs (v1 a), Rabs (v2 a)).
Definition vminc (a b : vec) : vec := (Rmin (v0 a) (v0 b), Rmin (v1 a) (v1 b), Rmin (v2 a) (v2 b)).
Definition vall_le (a b : vec) : bool := nleb (v0 a) (v0 b) && nleb (v1 a) (v1 b) && nleb (v2 a) (v2 b).
Definition vall_ge (a b : vec) : bool := vall_le b a.
Definition vall_lt (a b : vec) : bool := nltb (v0 a) (v0 b) && nltb (v1 a) (v1 b) && nltb (v2 a) (v2 b).
Definition vsum (l : list vec) : vec := fold_right vadd vzero l.

(* ---- 3x3 matrices, rows as vectors ---- *)
Definition mkm (r0 r1 r2 : vec) : mat := (r0, r1, r2).
Definition m0 (m : mat) : vec := fst (fst m).
Definition m1 (m : mat) : vec := snd (fst m).
Definition m2 (m : mat) : vec := snd m.
Definition mcol0 (m : mat) : vec := (v0 (m0 m), v0 (m1 m), v0 (m2 m)).
Definition mcol1 (m : mat) : vec := (v1 (m0 m), v1 (m1 m), v1 (m2 m)).
Definition mcol2 (m : mat) : vec := (v2 (m0 m), v2 (m1 m), v2 (m2 m)).
Definition mtrans (m : mat) : mat := (mcol0 m, mcol1 m, mcol2 m).
(* accumulation order of polyply's _matrix_multiplication: new = 0; new += a[i,k]*b[k,j], k=0,1,2 *)
Definition acc3 (p0 p1 p2 : R) : R := ((0 + p0) + p1) + p2.
Definition rowcol (r c : vec) : R := acc3 (v0 r * v0 c) (v1 r * v1 c) (v2 r * v2 c).
Definition mvmul (m : mat) (x : vec) : vec := (rowcol (m0 m) x, rowcol (m1 m) x, rowcol (m2 m) x).
Definition mmul (a b : mat) : mat :=
  let c0 := mcol0 b in let c1 := mcol1 b in let c2 := mcol2 b in
  ((rowcol (m0 a) c0, rowcol (m0 a) c1, rowcol (m0 a) c2),
   (rowcol (m1 a) c0, rowcol (m1 a) c1, rowcol (m1 a) c2),
   (rowcol (m2 a) c0, rowcol (m2 a) c1, rowcol (m2 a) c2)).
Definition mid : mat := ((1,0,0),(0,1,0),(0,0,1)).
Definition mdet (m : mat) : R := vdot (m0 m) (vcross (m1 m) (m2 m)).
Definition mcols (m : mat) (cols : list vec) : list vec := map (mvmul m) cols.

Ltac vdestruct :=
  repeat match goal with
  | v : vec |- _ => destruct v as [[? ?] ?]
  | m : mat |- _ => destruct m as [[? ?] ?]
  end.
Ltac vunfold :=
  unfold mcols, mdet, mid, mmul, mvmul, rowcol, acc3, mtrans, mcol0, mcol1, mcol2, m0, m1, m2, mkm,
         vsum, vall_lt, vall_ge, vall_le, vminc, vnorm_xy, vabs, vmod, vnorm, vcross, vdot, vmul, vdivs,
         vscale_r, vscale, vneg, vsub, vadd, vzero, v0, v1, v2, mkv, nconst_Q in *; cbn [fst snd] in *.
Lemma vec_eq (a b c a' b' c' : R) : a = a' -> b = b' -> c = c' -> (a, b, c) = (a', b', c').
Proof. intros; subst; reflexivity. Qed.
