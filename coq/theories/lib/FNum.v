(* PrimFloat (IEEE binary64) instance of the numeric interface: evaluation only.
   Same names as RNum.v so that the translator emits one definition text for both. *)
From Coq Require Import PrimFloat Uint63 ZArith List Bool.
Import ListNotations.
Open Scope float_scope.

Definition num := float.
Definition vec := (float * float * float)%type.
Definition mat := (vec * vec * vec)%type.

Definition nsqrt (x : float) : float := PrimFloat.sqrt x.
Definition nabs (x : float) : float := PrimFloat.abs x.
(* cube root by Newton iteration from above (evaluation aid only, compared under tolerance) *)
Fixpoint newton_cbrt (n : nat) (x y : float) : float :=
  match n with O => y | S k => newton_cbrt k x ((2 * y + x / (y * y)) / 3) end.
Definition ncbrt (x : float) : float := if PrimFloat.leb x 0 then 0 else newton_cbrt 200 x (if PrimFloat.ltb x 1 then 1 else x).
Definition nltb (a b : float) : bool := PrimFloat.ltb a b.
Definition nleb (a b : float) : bool := PrimFloat.leb a b.
Definition ngtb (a b : float) : bool := PrimFloat.ltb b a.
Definition ngeb (a b : float) : bool := PrimFloat.leb b a.
Definition nmin (a b : float) : float := if PrimFloat.ltb b a then b else a.
Definition nmax (a b : float) : float := if PrimFloat.ltb a b then b else a.
(* floor for |x| < 2^52 by the add-magic-constant trick; evaluation aid only (tolerance compare) *)
Definition two52 : float := 0x1p+52.
Definition nfloor (x : float) : float :=
  if PrimFloat.leb two52 (PrimFloat.abs x) then x else
  let r := if PrimFloat.ltb x 0 then (x - two52) + two52 else (x + two52) - two52 in
  if PrimFloat.ltb x r then r - 1 else r.
Definition nmod (x y : float) : float := x - y * nfloor (x / y).
Definition nsign (x : float) : float := if PrimFloat.ltb x 0 then -1 else if PrimFloat.ltb 0 x then 1 else 0.

Definition mkv (a b c : float) : vec := (a, b, c).
Definition v0 (v : vec) : float := fst (fst v).
Definition v1 (v : vec) : float := snd (fst v).
Definition v2 (v : vec) : float := snd v.
Definition vzero : vec := (0, 0, 0).
Definition vadd (a b : vec) : vec := (v0 a + v0 b, v1 a + v1 b, v2 a + v2 b).
Definition vsub (a b : vec) : vec := (v0 a - v0 b, v1 a - v1 b, v2 a - v2 b).
Definition vneg (a : vec) : vec := (- v0 a, - v1 a, - v2 a).
Definition vscale (s : float) (a : vec) : vec := (s * v0 a, s * v1 a, s * v2 a).
Definition vscale_r (a : vec) (s : float) : vec := (v0 a * s, v1 a * s, v2 a * s).
Definition vdivs (a : vec) (s : float) : vec := (v0 a / s, v1 a / s, v2 a / s).
Definition vmul (a b : vec) : vec := (v0 a * v0 b, v1 a * v1 b, v2 a * v2 b).
Definition vdot (a b : vec) : float := v0 a * v0 b + v1 a * v1 b + v2 a * v2 b.
Definition vcross (a b : vec) : vec :=
  (v1 a * v2 b - v2 a * v1 b, v2 a * v0 b - v0 a * v2 b, v0 a * v1 b - v1 a * v0 b).
Definition vnorm (a : vec) : float := PrimFloat.sqrt (vdot a a).
Definition vnorm_xy (a : vec) := PrimFloat.sqrt (v0 a * v0 a + v1 a * v1 a).
Definition vmod (a b : vec) : vec := (nmod (v0 a) (v0 b), nmod (v1 a) (v1 b), nmod (v2 a) (v2 b)).
Definition vabs (a : vec) : vec := (nabs (v0 a), nabs (v1 a), nabs (v2 a)).
Definition vminc (a b : vec) : vec := (nmin (v0 a) (v0 b), nmin (v1 a) (v1 b), nmin (v2 a) (v2 b)).
Definition vall_le (a b : vec) : bool := nleb (v0 a) (v0 b) && nleb (v1 a) (v1 b) && nleb (v2 a) (v2 b).
Definition vall_ge (a b : vec) : bool := vall_le b a.
Definition vall_lt (a b : vec) : bool := nltb (v0 a) (v0 b) && nltb (v1 a) (v1 b) && nltb (v2 a) (v2 b).
Definition vsum (l : list vec) : vec := fold_right vadd vzero l.

Definition mkm (r0 r1 r2 : vec) : mat := (r0, r1, r2).
Definition m0 (m : mat) : vec := fst (fst m).
Definition m1 (m : mat) : vec := snd (fst m).
Definition m2 (m : mat) : vec := snd m.
Definition mcol0 (m : mat) : vec := (v0 (m0 m), v0 (m1 m), v0 (m2 m)).
Definition mcol1 (m : mat) : vec := (v1 (m0 m), v1 (m1 m), v1 (m2 m)).
Definition mcol2 (m : mat) : vec := (v2 (m0 m), v2 (m1 m), v2 (m2 m)).
Definition mtrans (m : mat) : mat := (mcol0 m, mcol1 m, mcol2 m).
Definition acc3 (p0 p1 p2 : float) : float := ((0 + p0) + p1) + p2.
Definition rowcol (r c : vec) : float := acc3 (v0 r * v0 c) (v1 r * v1 c) (v2 r * v2 c).
Definition mvmul (m : mat) (x : vec) : vec := (rowcol (m0 m) x, rowcol (m1 m) x, rowcol (m2 m) x).
Definition mmul (a b : mat) : mat :=
  let c0 := mcol0 b in let c1 := mcol1 b in let c2 := mcol2 b in
  ((rowcol (m0 a) c0, rowcol (m0 a) c1, rowcol (m0 a) c2),
   (rowcol (m1 a) c0, rowcol (m1 a) c1, rowcol (m1 a) c2),
   (rowcol (m2 a) c0, rowcol (m2 a) c1, rowcol (m2 a) c2)).
Definition mid : mat := ((1,0,0),(0,1,0),(0,0,1)).
Definition mdet (m : mat) : float := vdot (m0 m) (vcross (m1 m) (m2 m)).
Definition mcols (m : mat) (cols : list vec) : list vec := map (mvmul m) cols.
