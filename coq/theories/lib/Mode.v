(* "in" / "out" / anything else, as the build-file parser hands the token to the predicates *)
Inductive mode := MIn | MOut | MOther.
Definition mode_is_in (m : mode) : bool := match m with MIn => true | _ => false end.
Definition mode_is_out (m : mode) : bool := match m with MOut => true | _ => false end.
Definition all3 (c : bool * bool * bool) : bool := let '(a, b, d) := c in andb (andb a b) d.
