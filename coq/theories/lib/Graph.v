(* Finite undirected graphs as edge lists over Z, walks, and the ball of radius k computed
   by k rounds of neighbour expansion (what a breadth-first search with a cutoff visits). *)
From Coq Require Import ZArith List Bool Lia.
Import ListNotations.
Open Scope Z_scope.

Definition graph := list (Z * Z).

Definition adjacent (g : graph) (a b : Z) : Prop := In (a, b) g \/ In (b, a) g.
Definition neighbors (g : graph) (a : Z) : list Z :=
  flat_map (fun e => if fst e =? a then [snd e] else if snd e =? a then [fst e] else []) g.

Lemma neighbors_spec g a b : In b (neighbors g a) <-> adjacent g a b.
Proof.
  unfold neighbors, adjacent. rewrite in_flat_map. split.
  - intros ([x y] & Hin & Hb). cbn [fst snd] in Hb. destruct (x =? a) eqn:E1.
    + apply Z.eqb_eq in E1; subst. destruct Hb as [<-|[]]. left; exact Hin.
    + destruct (y =? a) eqn:E2; [|destruct Hb]. apply Z.eqb_eq in E2; subst. destruct Hb as [<-|[]]. right; exact Hin.
  - intros [H|H].
    + exists (a, b). split; [exact H|]. cbn [fst snd]. rewrite Z.eqb_refl. left; reflexivity.
    + exists (b, a). split; [exact H|]. cbn [fst snd]. destruct (b =? a) eqn:E; [apply Z.eqb_eq in E; subst; left; reflexivity|].
      rewrite Z.eqb_refl. left; reflexivity.
Qed.

(* a walk of exactly n edges *)
Inductive walk (g : graph) : Z -> Z -> nat -> Prop :=
| walk_nil a : walk g a a 0
| walk_step a b c n : walk g a b n -> adjacent g b c -> walk g a c (S n).

Definition within (g : graph) (a b : Z) (k : nat) : Prop := exists n, (n <= k)%nat /\ walk g a b n.

Fixpoint ball (g : graph) (a : Z) (k : nat) : list Z :=
  match k with
  | O => [a]
  | S k' => let prev := ball g a k' in (prev ++ flat_map (neighbors g) prev)%list
  end.

Lemma ball_mono g a k b : In b (ball g a k) -> In b (ball g a (S k)).
Proof. intros H. cbn [ball]. apply in_or_app. left; exact H. Qed.

Theorem ball_spec g a k b : In b (ball g a k) <-> within g a b k.
Proof.
  revert b; induction k as [|k IH]; intros b.
  - cbn [ball]. split.
    + intros [<-|[]]. exists 0%nat. split; [lia|constructor].
    + intros (n & Hn & Hw). assert (n = 0)%nat by lia. subst. inversion Hw; subst. left; reflexivity.
  - cbn [ball]. rewrite in_app_iff, in_flat_map. split.
    + intros [H|(c & Hc & Hb)].
      * apply IH in H. destruct H as (n & Hn & Hw). exists n. split; [lia|exact Hw].
      * apply IH in Hc. destruct Hc as (n & Hn & Hw). apply neighbors_spec in Hb.
        exists (S n). split; [lia|]. econstructor; eassumption.
    + intros (n & Hn & Hw). destruct (Nat.eq_dec n (S k)) as [->|Hne].
      * inversion Hw as [|? c ? ? Hw' Hadj]; subst. right. exists c. split.
        -- apply IH. exists k. split; [lia|exact Hw'].
        -- apply neighbors_spec. exact Hadj.
      * left. apply IH. exists n. split; [lia|exact Hw].
Qed.

Lemma walk_sym g a b n : walk g a b n -> walk g b a n.
Proof.
  assert (pre : forall a b c n, adjacent g a b -> walk g b c n -> walk g a c (S n)).
  { intros x y c m Hadj Hw; revert x Hadj. induction Hw as [y|y z c m Hw IH Hzc]; intros x Hadj.
    - econstructor; [constructor|exact Hadj].
    - econstructor; [apply IH; exact Hadj|exact Hzc]. }
  induction 1 as [a|a b c n Hw IH Hadj]; [constructor|].
  apply (pre c b a n); [destruct Hadj; [right|left]; assumption|exact IH].
Qed.

Lemma within_sym g a b k : within g a b k -> within g b a k.
Proof. intros (n & Hn & Hw). exists n. split; [exact Hn|apply walk_sym; exact Hw]. Qed.

Lemma within_mono g a b k k' : (k <= k')%nat -> within g a b k -> within g a b k'.
Proof. intros Hk (n & Hn & Hw). exists n. split; [lia|exact Hw]. Qed.
