(* Small list lemmas shared by the developments. *)
From Coq Require Import List Lia Arith.
Import ListNotations.
Lemma nth_error_rev {A} (l : list A) j y :
  nth_error (rev l) j = Some y -> nth_error l (List.length l - 1 - j) = Some y.
Proof.
  intros H.
  assert (Hj : j < List.length l) by (rewrite <- rev_length; apply nth_error_Some; congruence).
  rewrite (nth_error_nth' _ y) in H by (rewrite rev_length; exact Hj). injection H as H.
  rewrite rev_nth in H by exact Hj.
  rewrite (nth_error_nth' _ y) by lia. f_equal. replace (List.length l - 1 - j) with (List.length l - S j) by lia. exact H.
Qed.
Lemma Forall2_nth_error {A B} (R : A -> B -> Prop) l l' j x :
  Forall2 R l l' -> nth_error l' j = Some x -> exists y, nth_error l j = Some y /\ R y x.
Proof.
  intros H; revert j; induction H as [|a b l l' Hab _ IH]; intros [|j] Hj; cbn in *; try discriminate.
  - injection Hj as <-. eauto.
  - eauto.
Qed.
Lemma Forall2_length {A B} (R : A -> B -> Prop) l l' : Forall2 R l l' -> List.length l = List.length l'.
Proof. induction 1; cbn; congruence. Qed.
Lemma Forall2_rev_ {A B} (R : A -> B -> Prop) l l' : Forall2 R l l' -> Forall2 R (rev l) (rev l').
Proof.
  induction 1 as [|x y l l' Hxy _ IH]; cbn [rev]; [constructor|].
  apply Forall2_app; [exact IH|]. constructor; [exact Hxy|constructor].
Qed.
